(* C13 — proofs about the inlining half of the model (CellInlining, pot_fill). *)
From Coq Require Import List ZArith Bool Lia Arith.
From T4V Require Import Base.Scalar C13.Model C13.Spec.
Import ListNotations.
Open Scope Z_scope.

(* ---------- induction on geometry trees ---------- *)
Fixpoint geom_ind' (P : geom -> Prop)
    (Hs : forall s, P (GSurf s)) (Hr : forall c, P (GRef c))
    (Hn : forall op args, Forall P args -> P (GNode op args)) (g : geom) : P g :=
  match g with
  | GSurf s => Hs s
  | GRef c => Hr c
  | GNode op args =>
      Hn op args ((fix go (l : list geom) : Forall P l :=
                     match l with
                     | [] => Forall_nil P
                     | a :: r => Forall_cons a (geom_ind' P Hs Hr Hn a) (go r)
                     end) args)
  end.

(* ---------- dict lemmas ---------- *)
Lemma lookup_update {V} (j k : Z) (v : V) d :
  lookup j (update k v d) = if Z.eqb k j then Some v else lookup j d.
Proof.
  induction d as [|[k' v'] r IH]; cbn [update lookup].
  - destruct (Z.eqb k j); reflexivity.
  - destruct (Z.eqb k' k) eqn:E.
    + apply Z.eqb_eq in E; subst k'. cbn [lookup]. destruct (Z.eqb k j); reflexivity.
    + cbn [lookup]. destruct (Z.eqb k' j) eqn:E2.
      * apply Z.eqb_eq in E2; subst k'. rewrite Z.eqb_sym in E. rewrite E. reflexivity.
      * exact IH.
Qed.

Lemma lookup_In {V} k (v : V) d : lookup k d = Some v -> In (k, v) d.
Proof.
  induction d as [|[k' v'] r IH]; cbn [lookup]; [discriminate|].
  destruct (Z.eqb k' k) eqn:E; intros H.
  - apply Z.eqb_eq in E; subst. injection H as ->. left; reflexivity.
  - right; auto.
Qed.

Lemma lookup_keys {V} k (d : list (Z * V)) : lookup k d <> None <-> In k (map fst d).
Proof.
  induction d as [|[k' v'] r IH]; cbn [lookup map fst In].
  - split; [congruence|tauto].
  - destruct (Z.eqb k' k) eqn:E.
    + apply Z.eqb_eq in E. split; [auto|congruence].
    + apply Z.eqb_neq in E. rewrite IH. split; [auto|intros [H|H]; [congruence|auto]].
Qed.

(* ---------- the four shapes of a filled cell ---------- *)
Lemma fill_geometry_den sigma rho dic fd fg key cell elt ec :
  is_model sigma rho dic ->
  lookup key dic = Some cell -> lookup elt dic = Some ec ->
  geval sigma rho (fill_geometry fd fg key (cgeom cell) elt (cgeom ec))
  = rho key && rho elt.
Proof.
  intros Hm Hk He. unfold fill_geometry. cbn [geval forallb].
  rewrite andb_true_r.
  rewrite (Hm _ _ Hk), (Hm _ _ He).
  destruct fd, fg; cbn [geval]; rewrite <- ?(Hm _ _ Hk), <- ?(Hm _ _ He); reflexivity.
Qed.

(* ---------- map_res ---------- *)
Lemma map_res_ok {A B} (f : A -> res B) l l' :
  map_res f l = Ok l' -> Forall2 (fun a b => f a = Ok b) l l'.
Proof.
  revert l'; induction l as [|a r IH]; intros l' H; cbn [map_res] in H.
  - injection H as <-. constructor.
  - destruct (f a) as [b|e] eqn:Ea; [|discriminate].
    destruct (map_res f r) as [r'|e] eqn:Er; [|discriminate].
    injection H as <-. constructor; auto.
Qed.

Lemma geval_args_eq sigma rho op l l' :
  Forall2 (fun a b => geval sigma rho b = geval sigma rho a) l l' ->
  geval sigma rho (GNode op l') = geval sigma rho (GNode op l).
Proof.
  intros H. destruct op; cbn [geval]; induction H as [|a b r r' Hab _ IH]; cbn; try reflexivity;
    rewrite Hab, IH; reflexivity.
Qed.

(* ---------- the worker preserves the value of a tree in every model ---------- *)
Lemma worker_sound sigma rho dic ti :
  is_model sigma rho dic ->
  forall fuel g g', inline_worker fuel dic ti g = Ok g' ->
  geval sigma rho g' = geval sigma rho g.
Proof.
  intros Hm. induction fuel as [|f IH]; intros g g' H; cbn [inline_worker] in H; [discriminate|].
  destruct g as [s|c|op args]; try (injection H as <-; reflexivity).
  destruct (map_res _ args) as [args'|e] eqn:Em; [|discriminate].
  injection H as <-. apply geval_args_eq.
  apply map_res_ok in Em.
  induction Em as [|a b r r' Hab _ IHr]; constructor; auto.
  destruct a as [s|c|op' l]; cbn [inline_arg] in Hab.
  - injection Hab as <-; reflexivity.
  - destruct (memZ c ti); [|injection Hab as <-; reflexivity].
    destruct (lookup c dic) as [sub|] eqn:El; [|discriminate].
    rewrite (IH _ _ Hab). cbn [geval]. symmetry. apply (Hm _ _ El).
  - apply (IH _ _ Hab).
Qed.

(* a model of the table stays a model through the whole loop of inline_cells *)
Lemma inline_loop_model sigma rho fuel ti :
  forall keys dic dic', inline_loop fuel ti keys dic = Ok dic' ->
  is_model sigma rho dic -> is_model sigma rho dic'.
Proof.
  induction keys as [|k r IH]; intros dic dic' H Hm; cbn [inline_loop] in H.
  - injection H as <-; exact Hm.
  - destruct (lookup k dic) as [c|] eqn:Ek; [|discriminate].
    destruct (inline_worker fuel dic ti (cgeom c)) as [g'|e] eqn:Ew; [|discriminate].
    apply (IH _ _ H). intros j cj Hj. rewrite lookup_update in Hj.
    destruct (Z.eqb k j) eqn:E.
    + apply Z.eqb_eq in E; subst j. injection Hj as <-. cbn [set_geom cgeom].
      rewrite (worker_sound _ _ _ _ Hm _ _ _ Ew). apply (Hm _ _ Ek).
    + apply (Hm _ _ Hj).
Qed.

Lemma inline_cells_model sigma rho fuel ti dic dic' :
  inline_cells fuel ti dic = Ok dic' -> is_model sigma rho dic -> is_model sigma rho dic'.
Proof.
  unfold inline_cells. destruct ti as [|t ti'].
  - intros H; injection H as <-; auto.
  - apply inline_loop_model.
Qed.

(* ---------- references after inlining ---------- *)
Lemma refs_node op args r : In r (refs (GNode op args)) <-> exists a, In a args /\ In r (refs a).
Proof. cbn [refs]. rewrite in_flat_map. tauto. Qed.

(* every reference left by the worker comes from a reference of the input, at
   the same or a lower rank, and resolves *)
Lemma worker_refs rank dic ti : acyclic rank dic ->
  forall fuel g g', inline_worker fuel dic ti g = Ok g' ->
  (forall r0, In r0 (refs g) -> lookup r0 dic <> None) ->
  forall r, In r (refs g') ->
    lookup r dic <> None /\ exists r0, In r0 (refs g) /\ (rank r <= rank r0)%nat.
Proof.
  intros Hac. induction fuel as [|f IH]; intros g g' H Hres r Hr; cbn [inline_worker] in H; [discriminate|].
  destruct g as [s|c|op args]; try (injection H as <-; split; [auto|exists r; split; [auto|lia]]).
  destruct (map_res _ args) as [args'|e] eqn:Em; [|discriminate].
  injection H as <-. apply map_res_ok in Em.
  apply refs_node in Hr. destruct Hr as [b [Hb Hrb]].
  assert (Hres' : forall a, In a args -> forall r0, In r0 (refs a) -> lookup r0 dic <> None).
  { intros a Ha r0 Hr0. apply Hres. apply refs_node. eauto. }
  clear Hres.
  induction Em as [|a b0 l l' Hab _ IHl]; [destruct Hb|].
  destruct Hb as [<-|Hb].
  - assert (Hin : forall r0, In r0 (refs a) -> In r0 (refs (GNode op (a :: l)))).
    { intros r0 H0. apply refs_node. exists a; split; [left; reflexivity|auto]. }
    destruct a as [s|c|op' la]; cbn [inline_arg] in Hab.
    + injection Hab as <-. destruct Hrb.
    + destruct (memZ c ti).
      * destruct (lookup c dic) as [sub|] eqn:El; [|discriminate].
        destruct (IH _ _ Hab (fun r0 H0 => proj2 (Hac _ _ El r0 H0)) r Hrb) as [Hl [r0 [H0 Hle]]].
        split; [exact Hl|]. exists c. split; [apply Hin; left; reflexivity|].
        pose proof (proj1 (Hac _ _ El r0 H0)). lia.
      * injection Hab as <-. split; [apply (Hres' _ (or_introl eq_refl)); exact Hrb|].
        exists r. split; [apply Hin; exact Hrb|lia].
    + destruct (IH _ _ Hab (Hres' _ (or_introl eq_refl)) r Hrb) as [Hl [r0 [H0 Hle]]].
      split; [exact Hl|]. exists r0. split; [apply Hin; exact H0|exact Hle].
  - destruct (IHl Hb (fun a0 Ha0 => Hres' a0 (or_intror Ha0))) as [Hl [r0 [H0 Hle]]].
    split; [exact Hl|]. exists r0. split; [|exact Hle].
    apply refs_node in H0. destruct H0 as [a0 [Ha0 Hr0]]. apply refs_node. exists a0; split; [right; auto|auto].
Qed.

Lemma inline_loop_acyclic rank fuel ti :
  forall keys dic dic', inline_loop fuel ti keys dic = Ok dic' ->
  acyclic rank dic -> acyclic rank dic' /\ (forall k, lookup k dic <> None <-> lookup k dic' <> None).
Proof.
  induction keys as [|k r IH]; intros dic dic' H Hac; cbn [inline_loop] in H.
  - injection H as <-; split; [exact Hac|tauto].
  - destruct (lookup k dic) as [c|] eqn:Ek; [|discriminate].
    destruct (inline_worker fuel dic ti (cgeom c)) as [g'|e] eqn:Ew; [|discriminate].
    assert (Hdom : forall j, lookup j dic <> None <-> lookup j (update k (set_geom c g') dic) <> None).
    { intros j. rewrite lookup_update. destruct (Z.eqb k j) eqn:E; [|tauto].
      apply Z.eqb_eq in E; subst j. rewrite Ek. split; congruence. }
    assert (Hac1 : acyclic rank (update k (set_geom c g') dic)).
    { intros j cj Hj x Hx. rewrite lookup_update in Hj. destruct (Z.eqb k j) eqn:E.
      - apply Z.eqb_eq in E; subst j. injection Hj as <-. cbn [set_geom cgeom] in Hx.
        destruct (worker_refs rank dic ti Hac _ _ _ Ew (fun r0 H0 => proj2 (Hac _ _ Ek r0 H0)) x Hx)
          as [Hl [r0 [H0 Hle]]].
        pose proof (proj1 (Hac _ _ Ek r0 H0)). split; [lia|apply Hdom; exact Hl].
      - destruct (Hac _ _ Hj x Hx) as [Hlt Hl]. split; [exact Hlt|apply Hdom; exact Hl]. }
    destruct (IH _ _ H Hac1) as [Hac' Hd']. split; [exact Hac'|].
    intros j. rewrite Hdom. apply Hd'.
Qed.

Lemma inline_cells_acyclic rank fuel ti dic dic' :
  inline_cells fuel ti dic = Ok dic' -> acyclic rank dic ->
  acyclic rank dic' /\ (forall k, lookup k dic <> None <-> lookup k dic' <> None).
Proof.
  unfold inline_cells. destruct ti as [|t ti'].
  - intros H; injection H as <-; intros; split; [auto|tauto].
  - apply inline_loop_acyclic.
Qed.

(* ---------- acyclic tables have exactly one model (on their cells) ---------- *)
Lemma geval_ext sigma rho1 rho2 g :
  (forall r, In r (refs g) -> rho1 r = rho2 r) -> geval sigma rho1 g = geval sigma rho2 g.
Proof.
  induction g as [s|c|op args IH] using geom_ind'; intros H; cbn [geval].
  - reflexivity.
  - apply H. left; reflexivity.
  - assert (Hall : forall a, In a args -> geval sigma rho1 a = geval sigma rho2 a).
    { intros a Ha. rewrite Forall_forall in IH. apply (IH a Ha).
      intros r Hr. apply H. apply refs_node. eauto. }
    clear IH H. destruct op; induction args as [|a l IHl]; cbn; try reflexivity;
      rewrite (Hall a (or_introl eq_refl)), IHl; auto; intros; apply Hall; right; auto.
Qed.

Lemma ceval_stable rank sigma dic : acyclic rank dic ->
  forall n m k, (rank k < n)%nat -> (rank k < m)%nat -> ceval n sigma dic k = ceval m sigma dic k.
Proof.
  intros Hac. induction n as [|n IH]; intros m k Hn Hm; [lia|].
  destruct m as [|m]; [lia|]. cbn [ceval].
  destruct (lookup k dic) as [c|] eqn:Ek; [|reflexivity].
  apply geval_ext. intros r Hr. pose proof (proj1 (Hac _ _ Ek r Hr)). apply IH; lia.
Qed.

Lemma cden_model rank sigma dic : acyclic rank dic -> is_model sigma (cden rank sigma dic) dic.
Proof.
  intros Hac k c Hk. unfold cden at 1. cbn [ceval]. rewrite Hk.
  apply geval_ext. intros r Hr. unfold cden.
  pose proof (proj1 (Hac _ _ Hk r Hr)). apply (ceval_stable rank sigma dic Hac); lia.
Qed.

Lemma model_unique rank sigma dic rho : acyclic rank dic -> is_model sigma rho dic ->
  forall k, lookup k dic <> None -> rho k = cden rank sigma dic k.
Proof.
  intros Hac Hm.
  assert (H : forall n k, (rank k < n)%nat -> lookup k dic <> None -> rho k = cden rank sigma dic k).
  { induction n as [|n IH]; intros k Hn Hk; [lia|].
    destruct (lookup k dic) as [c|] eqn:Ek; [|congruence].
    rewrite (Hm _ _ Ek), (cden_model rank sigma dic Hac _ _ Ek).
    apply geval_ext. intros r Hr. destruct (Hac _ _ Ek r Hr) as [Hlt Hl]. apply IH; [lia|exact Hl]. }
  intros k. apply (H (S (rank k))). lia.
Qed.

Lemma acyclic_unique_model (rank : Z -> nat) sigma dic : acyclic rank dic ->
  is_model sigma (cden rank sigma dic) dic /\
  forall rho, is_model sigma rho dic -> forall k, lookup k dic <> None -> rho k = cden rank sigma dic k.
Proof.
  intros H. split; [exact (cden_model rank sigma dic H)|].
  intros rho Hm; exact (model_unique rank sigma dic rho H Hm).
Qed.

(* ---------- the theorem: inlining any set of cells changes no denotation ---------- *)
Theorem inline_den rank sigma fuel ti dic dic' :
  acyclic rank dic -> inline_cells fuel ti dic = Ok dic' ->
  acyclic rank dic' /\
  (forall k, lookup k dic <> None <-> lookup k dic' <> None) /\
  (forall k, lookup k dic <> None -> cden rank sigma dic' k = cden rank sigma dic k).
Proof.
  intros Hac H. destruct (inline_cells_acyclic rank _ _ _ _ H Hac) as [Hac' Hdom].
  split; [exact Hac'|]. split; [exact Hdom|]. intros k Hk. symmetry.
  apply (model_unique rank sigma dic' _ Hac').
  - apply (inline_cells_model _ _ _ _ _ _ H). apply cden_model; exact Hac.
  - apply Hdom; exact Hk.
Qed.

(* ---------- enough fuel exists on acyclic tables (no RecursionError) ---------- *)
Lemma map_res_intro {A B} (f : A -> res B) l l' :
  Forall2 (fun a b => f a = Ok b) l l' -> map_res f l = Ok l'.
Proof.
  induction 1 as [|a b r r' Hab _ IH]; cbn [map_res]; [reflexivity|]. rewrite Hab, IH. reflexivity.
Qed.

Lemma worker_mono dic ti : forall f g g', inline_worker f dic ti g = Ok g' ->
  forall f', (f <= f')%nat -> inline_worker f' dic ti g = Ok g'.
Proof.
  induction f as [|f IH]; intros g g' H f' Hle; cbn [inline_worker] in H; [discriminate|].
  destruct f' as [|f']; [lia|]. cbn [inline_worker].
  destruct g as [s|c|op args]; try exact H.
  destruct (map_res _ args) as [args'|e] eqn:Em; [|discriminate].
  injection H as <-. apply map_res_ok in Em.
  rewrite (map_res_intro _ args args'); [reflexivity|].
  induction Em as [|a b r r' Hab _ IHr]; constructor; auto.
  destruct a as [s|c|op' l]; cbn [inline_arg] in *.
  - exact Hab.
  - destruct (memZ c ti); [|exact Hab]. destruct (lookup c dic); [|discriminate].
    apply (IH _ _ Hab). lia.
  - apply (IH _ _ Hab). lia.
Qed.

Lemma map_res_bound {A B} (F : nat -> A -> res B) l :
  (forall a f b, F f a = Ok b -> forall f', (f <= f')%nat -> F f' a = Ok b) ->
  Forall (fun a => exists N b, F N a = Ok b) l ->
  exists N l', map_res (F N) l = Ok l'.
Proof.
  intros Hmono H. induction H as [|a r [Na [b Hb]] _ [Nr [r' Hr]]].
  - exists O, []. reflexivity.
  - exists (Nat.max Na Nr), (b :: r'). apply map_res_intro. constructor.
    + apply (Hmono _ _ _ Hb). lia.
    + apply map_res_ok in Hr. clear -Hr Hmono.
      induction Hr as [|x y l l' Hxy _ IH]; constructor; auto.
      apply (Hmono _ _ _ Hxy). lia.
Qed.

Lemma worker_total rank dic ti : acyclic rank dic ->
  forall n g, (forall r, In r (refs g) -> (rank r < n)%nat /\ lookup r dic <> None) ->
  exists N g', inline_worker N dic ti g = Ok g'.
Proof.
  intros Hac. induction n as [n IHn] using lt_wf_ind.
  induction g as [s|c|op args IHg] using geom_ind'; intros Hr.
  - exists 1%nat, (GSurf s). reflexivity.
  - exists 1%nat, (GRef c). reflexivity.
  - assert (Hargs : Forall (fun a => exists N b, inline_arg (inline_worker N dic ti) dic ti a = Ok b) args).
    { rewrite Forall_forall in *. intros a Ha.
      assert (Hra : forall r, In r (refs a) -> (rank r < n)%nat /\ lookup r dic <> None).
      { intros r H0. apply Hr. apply refs_node. eauto. }
      destruct a as [s|c|op' l]; cbn [inline_arg].
      - exists O, (GSurf s). reflexivity.
      - destruct (memZ c ti); [|exists O, (GRef c); reflexivity].
        destruct (Hra c (or_introl eq_refl)) as [Hlt Hl].
        destruct (lookup c dic) as [sub|] eqn:El; [|congruence].
        apply (IHn (rank c) Hlt). intros r H0. exact (Hac _ _ El r H0).
      - apply (IHg _ Ha Hra). }
    destruct (map_res_bound (fun N => inline_arg (inline_worker N dic ti) dic ti) args) as [N [l' Hl']].
    + intros a f b Hab f' Hle. destruct a as [s|c|op' l]; cbn [inline_arg] in *.
      * exact Hab.
      * destruct (memZ c ti); [|exact Hab]. destruct (lookup c dic); [|discriminate].
        apply (worker_mono _ _ _ _ _ Hab _ Hle).
      * apply (worker_mono _ _ _ _ _ Hab _ Hle).
    + exact Hargs.
    + exists (S N), (GNode op l'). cbn [inline_worker]. rewrite Hl'. reflexivity.
Qed.

Lemma inline_loop_mono ti : forall keys f dic dic', inline_loop f ti keys dic = Ok dic' ->
  forall f', (f <= f')%nat -> inline_loop f' ti keys dic = Ok dic'.
Proof.
  induction keys as [|k r IH]; intros f dic dic' H f' Hle; cbn [inline_loop] in *; [exact H|].
  destruct (lookup k dic) as [c|]; [|discriminate].
  destruct (inline_worker f dic ti (cgeom c)) as [g'|e] eqn:Ew; [|discriminate].
  rewrite (worker_mono _ _ _ _ _ Ew _ Hle). apply (IH _ _ _ H _ Hle).
Qed.

Lemma inline_loop_total rank ti : forall keys dic, acyclic rank dic ->
  (forall k, In k keys -> lookup k dic <> None) ->
  exists N dic', inline_loop N ti keys dic = Ok dic'.
Proof.
  induction keys as [|k r IH]; intros dic Hac Hk.
  - exists O, dic. reflexivity.
  - destruct (lookup k dic) as [c|] eqn:Ek; [|exfalso; apply (Hk k (or_introl eq_refl)); exact Ek].
    destruct (worker_total rank dic ti Hac (rank k) (cgeom c) (Hac _ _ Ek)) as [N1 [g' Hg]].
    assert (H1 : inline_loop N1 ti [k] dic = Ok (update k (set_geom c g') dic)).
    { cbn [inline_loop]. rewrite Ek, Hg. reflexivity. }
    destruct (inline_loop_acyclic rank _ _ _ _ _ H1 Hac) as [Hac1 Hdom].
    destruct (IH _ Hac1 (fun j Hj => proj1 (Hdom j) (Hk j (or_intror Hj)))) as [N2 [dic' H2]].
    exists (Nat.max N1 N2), dic'. cbn [inline_loop]. rewrite Ek.
    rewrite (worker_mono _ _ _ _ _ Hg (Nat.max N1 N2)); [|lia].
    apply (inline_loop_mono _ _ _ _ _ H2). lia.
Qed.

(* the answer does not depend on the fuel once there is enough of it *)
Theorem inline_total rank ti dic : acyclic rank dic ->
  exists N dic', forall fuel, (N <= fuel)%nat -> inline_cells fuel ti dic = Ok dic'.
Proof.
  intros Hac. unfold inline_cells. destruct ti as [|t ti'].
  - exists O, dic. reflexivity.
  - destruct (inline_loop_total rank (t :: ti') (map fst dic) dic Hac) as [N [dic' H]].
    + intros k Hk. apply lookup_keys. exact Hk.
    + exists N, dic'. intros fuel Hle. apply (inline_loop_mono _ _ _ _ _ H _ Hle).
Qed.

(* ---------- inlining is complete: no reference to an inlined cell is left ---------- *)
Definition not_bare_ref (g : geom) : Prop := match g with GRef _ => False | _ => True end.
Definition no_bare (dic : list (Z * mcell)) : Prop :=
  forall k c, lookup k dic = Some c -> not_bare_ref (cgeom c).
Definition clean (ti : list Z) (g : geom) : Prop := forall r, In r (refs g) -> memZ r ti = false.

Lemma worker_keeps_shape dic ti fuel g g' :
  inline_worker fuel dic ti g = Ok g' -> not_bare_ref g -> not_bare_ref g'.
Proof.
  destruct fuel as [|f]; cbn [inline_worker]; [discriminate|].
  destruct g as [s|c|op args]; intros H Hn; try (injection H as <-; exact Hn).
  destruct (map_res _ args); [|discriminate]. injection H as <-. exact I.
Qed.

Lemma worker_complete dic ti : no_bare dic ->
  forall fuel g g', inline_worker fuel dic ti g = Ok g' -> not_bare_ref g -> clean ti g'.
Proof.
  intros Hnb. induction fuel as [|f IH]; intros g g' H Hn; cbn [inline_worker] in H; [discriminate|].
  destruct g as [s|c|op args]; [injection H as <-; intros r []|destruct Hn|].
  destruct (map_res _ args) as [args'|e] eqn:Em; [|discriminate].
  injection H as <-. apply map_res_ok in Em. intros r Hr. clear Hn.
  apply refs_node in Hr. destruct Hr as [b [Hb Hrb]].
  induction Em as [|a b0 l l' Hab _ IHl]; [destruct Hb|].
  destruct Hb as [<-|Hb]; [|exact (IHl Hb)].
  destruct a as [s|c|op' la]; cbn [inline_arg] in Hab.
  - injection Hab as <-. destruct Hrb.
  - destruct (memZ c ti) eqn:Ec.
    + destruct (lookup c dic) as [sub|] eqn:El; [|discriminate].
      apply (IH _ _ Hab (Hnb _ _ El) r Hrb).
    + injection Hab as <-. destruct Hrb as [<-|[]]. exact Ec.
  - apply (IH _ _ Hab I r Hrb).
Qed.

Lemma inline_loop_complete fuel ti : forall keys dic dic' done,
  inline_loop fuel ti keys dic = Ok dic' -> no_bare dic ->
  (forall k c, lookup k dic = Some c -> In k done -> clean ti (cgeom c)) ->
  no_bare dic' /\
  (forall k c, lookup k dic' = Some c -> In k done \/ In k keys -> clean ti (cgeom c)).
Proof.
  induction keys as [|k r IH]; intros dic dic' done H Hnb Hdone; cbn [inline_loop] in H.
  - injection H as <-. split; [exact Hnb|]. intros j c Hj [Hd|[]]. exact (Hdone _ _ Hj Hd).
  - destruct (lookup k dic) as [c|] eqn:Ek; [|discriminate].
    destruct (inline_worker fuel dic ti (cgeom c)) as [g'|e] eqn:Ew; [|discriminate].
    destruct (IH _ _ (k :: done) H) as [Hnb' Hc'].
    + intros j cj Hj. rewrite lookup_update in Hj. destruct (Z.eqb k j).
      * injection Hj as <-. cbn [set_geom cgeom]. apply (worker_keeps_shape _ _ _ _ _ Ew (Hnb _ _ Ek)).
      * exact (Hnb _ _ Hj).
    + intros j cj Hj Hin. rewrite lookup_update in Hj. destruct (Z.eqb k j) eqn:E.
      * injection Hj as <-. cbn [set_geom cgeom]. apply (worker_complete dic ti Hnb _ _ _ Ew (Hnb _ _ Ek)).
      * destruct Hin as [<-|Hin]; [rewrite Z.eqb_refl in E; discriminate|]. exact (Hdone _ _ Hj Hin).
    + split; [exact Hnb'|]. intros j cj Hj Hin. apply (Hc' _ _ Hj).
      destruct Hin as [Hd|[<-|Hr]]; [left; right; exact Hd|left; left; reflexivity|right; exact Hr].
Qed.

Lemma inline_loop_dom fuel ti : forall keys dic dic', inline_loop fuel ti keys dic = Ok dic' ->
  forall k, lookup k dic <> None <-> lookup k dic' <> None.
Proof.
  induction keys as [|k0 r IH]; intros dic dic' H k; cbn [inline_loop] in H.
  - injection H as <-. tauto.
  - destruct (lookup k0 dic) as [c|] eqn:Ek; [|discriminate].
    destruct (inline_worker fuel dic ti (cgeom c)) as [g'|e]; [|discriminate].
    rewrite <- (IH _ _ H k), lookup_update. destruct (Z.eqb k0 k) eqn:E; [|tauto].
    apply Z.eqb_eq in E; subst k0. rewrite Ek. split; congruence.
Qed.

(* after inline_cells no cell mentions a cell of to_inline any more (tables whose
   geometries are not bare CellRefs: pot_fill always builds a node) *)
Theorem inline_complete fuel ti dic dic' :
  no_bare dic -> inline_cells fuel ti dic = Ok dic' ->
  forall k c, lookup k dic' = Some c -> forall r, In r (refs (cgeom c)) -> memZ r ti = false.
Proof.
  intros Hnb H k c Hk. unfold inline_cells in H. destruct ti as [|t ti'].
  - intros r _. reflexivity.
  - destruct (inline_loop_complete fuel (t :: ti') (map fst dic) dic dic' [] H Hnb) as [_ Hc].
    + intros j cj _ [].
    + apply (Hc _ _ Hk). right. apply lookup_keys.
      apply (inline_loop_dom _ _ _ _ _ H k). congruence.
Qed.

(* with the score: whatever --max-inline-score selects *)
Theorem inline_score_den {T} (S : Base.Scalar.Scalar T) rank sigma fuel max_score dic dic' :
  acyclic rank dic -> inline_cells_score S fuel max_score dic = Ok dic' ->
  acyclic rank dic' /\
  (forall k, lookup k dic <> None <-> lookup k dic' <> None) /\
  (forall k, lookup k dic <> None -> cden rank sigma dic' k = cden rank sigma dic k).
Proof.
  intros Hac H. unfold inline_cells_score in H.
  destruct (find_occurrences dic) as [occ|e]; [|discriminate].
  destruct occ as [|o occ'].
  - injection H as <-. split; [exact Hac|]. split; [tauto|reflexivity].
  - destruct (select_to_inline S max_score dic (o :: occ')) as [ti|e]; [|discriminate].
    apply (inline_den rank sigma fuel ti dic dic' Hac H).
Qed.

(* ---------- find_occurrences records only real mentions ---------- *)
Definition mentions (dic : list (Z * mcell)) (key sub : Z) : Prop :=
  exists c, lookup key dic = Some c /\ In sub (extract_subcells (cgeom c)).

Definition occ_ok (dic : list (Z * mcell)) (occ : list (Z * list Z)) : Prop :=
  forall sub l, lookup sub occ = Some l -> forall key, In key l -> mentions dic key sub.

Lemma lookup_app_fresh {V} (d : list (Z * V)) k v j : lookup k d = None ->
  lookup j (d ++ [(k, v)]) = if Z.eqb k j then match lookup j d with Some x => Some x | None => Some v end else lookup j d.
Proof.
  intros Hf. induction d as [|[k0 v0] r IH]; cbn [app lookup] in *.
  - destruct (Z.eqb k j); reflexivity.
  - destruct (Z.eqb k0 k) eqn:E0; [discriminate|]. destruct (Z.eqb k0 j) eqn:Ej.
    + destruct (Z.eqb k j); reflexivity.
    + apply IH. exact Hf.
Qed.

Lemma occ_append_ok dic s key occ : occ_ok dic occ -> mentions dic key s -> occ_ok dic (occ_append s key occ).
Proof.
  intros Hok Hm sub l Hl k Hk. unfold occ_append in Hl. destruct (lookup s occ) as [l0|] eqn:Es.
  - rewrite lookup_update in Hl. destruct (Z.eqb s sub) eqn:E.
    + apply Z.eqb_eq in E; subst sub. injection Hl as <-. apply in_app_or in Hk.
      destruct Hk as [Hk|[<-|[]]]; [exact (Hok _ _ Es _ Hk)|exact Hm].
    + exact (Hok _ _ Hl _ Hk).
  - rewrite (lookup_app_fresh _ _ _ _ Es) in Hl. destruct (Z.eqb s sub) eqn:E.
    + apply Z.eqb_eq in E; subst sub. rewrite Es in Hl. injection Hl as <-. destruct Hk as [<-|[]]. exact Hm.
    + exact (Hok _ _ Hl _ Hk).
Qed.

Lemma occ_visit_ok dic key : forall subs stack enq occ,
  occ_ok dic occ -> (forall s, In s subs -> mentions dic key s) ->
  occ_ok dic (snd (occ_visit key subs stack enq occ)).
Proof.
  induction subs as [|s r IH]; intros stack enq occ Hok Hm; cbn [occ_visit]; [exact Hok|].
  destruct (memZ s enq); apply IH;
    try (apply occ_append_ok; [exact Hok|apply Hm; left; reflexivity]);
    intros x Hx; apply Hm; right; exact Hx.
Qed.

Lemma occ_loop_ok dic : forall fuel stack enq occ out,
  occ_loop fuel dic stack enq occ = Ok out -> occ_ok dic occ -> occ_ok dic out.
Proof.
  induction fuel as [|f IH]; intros stack enq occ out H Hok; cbn [occ_loop] in H.
  - destruct stack; [injection H as <-; exact Hok|discriminate].
  - destruct stack as [|key rest]; [injection H as <-; exact Hok|].
    destruct (lookup key dic) as [c|] eqn:Ek; [|discriminate].
    pose proof (occ_visit_ok dic key (extract_subcells (cgeom c)) rest enq occ Hok) as Hv.
    destruct (occ_visit key (extract_subcells (cgeom c)) rest enq occ) as [[st' en'] occ'].
    cbn [snd] in Hv. apply (IH _ _ _ _ H). apply Hv. intros s Hs. exists c. auto.
Qed.

(* occurrences[sub] lists only cells whose geometry really mentions sub *)
Theorem find_occurrences_sound dic occ : find_occurrences dic = Ok occ ->
  forall sub l, lookup sub occ = Some l -> forall key, In key l -> mentions dic key sub.
Proof.
  unfold find_occurrences. intros H. apply (occ_loop_ok dic _ _ _ _ _ H).
  intros sub l Hl. discriminate.
Qed.

(* ---------- find_occurrences misses no mention of a reachable cell ---------- *)
Definition recorded (occ : list (Z * list Z)) (sub key : Z) : Prop :=
  exists l, lookup sub occ = Some l /\ In key l.

Lemma occ_append_recorded s key occ : recorded (occ_append s key occ) s key.
Proof.
  unfold recorded, occ_append. destruct (lookup s occ) as [l0|] eqn:Es.
  - exists (l0 ++ [key]). rewrite lookup_update, Z.eqb_refl. split; [reflexivity|apply in_or_app; right; left; reflexivity].
  - exists [key]. rewrite (lookup_app_fresh _ _ _ _ Es), Z.eqb_refl, Es. split; [reflexivity|left; reflexivity].
Qed.

Lemma occ_append_keeps s key occ sub k : recorded occ sub k -> recorded (occ_append s key occ) sub k.
Proof.
  intros [l [Hl Hk]]. unfold recorded, occ_append. destruct (lookup s occ) as [l0|] eqn:Es.
  - rewrite lookup_update. destruct (Z.eqb s sub) eqn:E.
    + apply Z.eqb_eq in E; subst sub. rewrite Es in Hl. injection Hl as <-.
      exists (l0 ++ [key]). split; [reflexivity|apply in_or_app; left; exact Hk].
    + exists l. auto.
  - rewrite (lookup_app_fresh _ _ _ _ Es). destruct (Z.eqb s sub) eqn:E.
    + apply Z.eqb_eq in E; subst sub. congruence.
    + exists l. auto.
Qed.

Lemma memZ_In x l : memZ x l = true <-> In x l.
Proof.
  unfold memZ. rewrite existsb_exists. split.
  - intros [y [Hy He]]. apply Z.eqb_eq in He. subst; exact Hy.
  - intros H. exists x. split; [exact H|apply Z.eqb_refl].
Qed.

(* one visit: every sub is enqueued and recorded; nothing is forgotten; what is
   newly on the stack is exactly what was newly enqueued *)
Lemma occ_visit_spec key : forall subs stack enq occ stack' enq' occ',
  occ_visit key subs stack enq occ = (stack', enq', occ') ->
  (forall s, In s subs -> In s enq' /\ recorded occ' s key) /\
  (forall k, In k enq -> In k enq') /\
  (forall sub k, recorded occ sub k -> recorded occ' sub k) /\
  (forall k, In k stack -> In k stack') /\
  (forall k, In k enq' -> In k enq \/ In k stack') /\
  (forall k, In k stack' -> In k stack \/ In k enq').
Proof.
  induction subs as [|s r IH]; intros stack enq occ stack' enq' occ' H; cbn [occ_visit] in H.
  - injection H as <- <- <-. split; [intros x []|]. repeat split; auto.
  - destruct (memZ s enq) eqn:Em.
    + destruct (IH _ _ _ _ _ _ H) as [A [B [C [D [E F]]]]].
      split; [|split; [exact B|split; [|split; [exact D|split; [exact E|exact F]]]]].
      * intros x [Hx|Hx]; [subst x|exact (A x Hx)]. split; [apply B; apply memZ_In; exact Em|].
        apply C. apply occ_append_recorded.
      * intros sub k Hr. apply C. apply occ_append_keeps. exact Hr.
    + destruct (IH _ _ _ _ _ _ H) as [A [B [C [D [E F]]]]].
      split; [|split; [|split; [|split; [|split]]]].
      * intros x [Hx|Hx]; [subst x|exact (A x Hx)]. split; [apply B; left; reflexivity|].
        apply C. apply occ_append_recorded.
      * intros k Hk. apply B. right; exact Hk.
      * intros sub k Hr. apply C. apply occ_append_keeps. exact Hr.
      * intros k Hk. apply D. right; exact Hk.
      * intros k Hk. destruct (E k Hk) as [[<-|He]|Hs]; [right; apply D; left; reflexivity|left; exact He|right; exact Hs].
      * intros k Hk. destruct (F k Hk) as [[<-|Hs]|He]; [right; apply B; left; reflexivity|left; exact Hs|right; exact He].
Qed.

(* invariant of the work list, with the set of processed cells as ghost state *)
Definition occ_inv (dic : list (Z * mcell)) (done stack enq : list Z) (occ : list (Z * list Z)) : Prop :=
  (forall k, In k enq -> In k stack \/ In k done) /\
  (forall k c, In k done -> lookup k dic = Some c ->
     forall s, In s (extract_subcells (cgeom c)) -> In s enq /\ recorded occ s k).

Lemma occ_loop_complete dic : forall fuel done stack enq occ out,
  occ_loop fuel dic stack enq occ = Ok out -> occ_inv dic done stack enq occ ->
  exists done' enq', occ_inv dic done' [] enq' out /\ (forall k, In k enq -> In k enq').
Proof.
  induction fuel as [|f IH]; intros done stack enq occ out H Hinv; cbn [occ_loop] in H.
  - destruct stack; [|discriminate]. injection H as <-. exists done, enq. auto.
  - destruct stack as [|key rest]; [injection H as <-; exists done, enq; auto|].
    destruct (lookup key dic) as [c|] eqn:Ek; [|discriminate].
    destruct (occ_visit key (extract_subcells (cgeom c)) rest enq occ) as [[st' en'] occ'] eqn:Ev.
    destruct (occ_visit_spec key _ _ _ _ _ _ _ Ev) as [A [B [C [D [E F]]]]].
    destruct Hinv as [I1 I2].
    destruct (IH (key :: done) st' en' occ' out H) as [done' [enq' [Hfin Hsub]]].
    + split.
      * intros k Hk. destruct (E k Hk) as [He|Hs]; [|left; exact Hs].
        destruct (I1 k He) as [[<-|Hr]|Hd]; [right; left; reflexivity|left; apply D; exact Hr|right; right; exact Hd].
      * intros k ck [<-|Hd] Hl s Hs.
        -- rewrite Ek in Hl. injection Hl as <-. exact (A s Hs).
        -- destruct (I2 k ck Hd Hl s Hs) as [He Hr]. split; [apply B; exact He|apply C; exact Hr].
    + exists done', enq'. split; [exact Hfin|]. intros k Hk. apply Hsub. apply B. exact Hk.
Qed.

(* cells reachable from the level-0 cells through mentions *)
Inductive reachable (dic : list (Z * mcell)) : Z -> Prop :=
| reach_root k c : lookup k dic = Some c -> cuniv c = 0 -> reachable dic k
| reach_step k c s : reachable dic k -> lookup k dic = Some c ->
    In s (extract_subcells (cgeom c)) -> reachable dic s.

Theorem find_occurrences_complete dic occ : find_occurrences dic = Ok occ ->
  forall key c sub, reachable dic key -> lookup key dic = Some c ->
    In sub (extract_subcells (cgeom c)) -> recorded occ sub key.
Proof.
  unfold find_occurrences. intros H.
  set (roots := map fst (filter (fun kv => Z.eqb (cuniv (snd kv)) 0) dic)) in *.
  destruct (occ_loop_complete dic _ [] (rev roots) roots [] occ H) as [done [enq [[I1 I2] Hsub]]].
  { split; [intros k Hk; left; apply in_rev; rewrite rev_involutive; exact Hk|intros k c []]. }
  assert (Hreach : forall k, reachable dic k -> In k done).
  { intros k Hr. induction Hr as [k c Hl Hu|k c s Hr IHr Hl Hs].
    - assert (Hin : In k roots).
      { unfold roots. apply in_map_iff. exists (k, c). split; [reflexivity|]. apply filter_In.
        split; [apply lookup_In; exact Hl|]. cbn [snd]. rewrite Hu. reflexivity. }
      destruct (I1 k (Hsub k Hin)) as [[]|Hd]. exact Hd.
    - destruct (I2 k c IHr Hl s Hs) as [He _]. destruct (I1 s He) as [[]|Hd]. exact Hd. }
  intros key c sub Hr Hl Hs. exact (proj2 (I2 key c (Hreach key Hr) Hl sub Hs)).
Qed.

(* ---------- find_occurrences counts every mention exactly once ---------- *)
Definition occ_cnt (occ : list (Z * list Z)) (sub key : Z) : nat :=
  match lookup sub occ with Some l => count_occ Z.eq_dec l key | None => O end.

Lemma occ_append_cnt s key occ sub k :
  occ_cnt (occ_append s key occ) sub k
  = (occ_cnt occ sub k + (if Z.eq_dec s sub then if Z.eq_dec key k then 1 else 0 else 0))%nat.
Proof.
  unfold occ_cnt, occ_append. destruct (lookup s occ) as [l0|] eqn:Es.
  - rewrite lookup_update. destruct (Z.eqb s sub) eqn:E.
    + apply Z.eqb_eq in E; subst sub. rewrite Es. destruct (Z.eq_dec s s); [|congruence].
      rewrite count_occ_app. cbn [count_occ]. destruct (Z.eq_dec key k); reflexivity.
    + apply Z.eqb_neq in E. destruct (Z.eq_dec s sub); [congruence|]. lia.
  - rewrite (lookup_app_fresh _ _ _ _ Es). destruct (Z.eqb s sub) eqn:E.
    + apply Z.eqb_eq in E; subst sub. rewrite Es. destruct (Z.eq_dec s s); [|congruence].
      cbn [count_occ]. destruct (Z.eq_dec key k); reflexivity.
    + apply Z.eqb_neq in E. destruct (Z.eq_dec s sub); [congruence|]. lia.
Qed.

(* one visit adds, for the visited key, the number of times each sub is mentioned *)
Lemma occ_visit_cnt key : forall subs stack enq occ stack' enq' occ',
  occ_visit key subs stack enq occ = (stack', enq', occ') ->
  forall sub k, occ_cnt occ' sub k
    = (occ_cnt occ sub k + (if Z.eq_dec key k then count_occ Z.eq_dec subs sub else 0))%nat.
Proof.
  induction subs as [|s r IH]; intros stack enq occ stack' enq' occ' H sub k; cbn [occ_visit] in H.
  - injection H as _ _ <-. cbn [count_occ]. destruct (Z.eq_dec key k); lia.
  - assert (Hstep : forall st en, occ_visit key r st en (occ_append s key occ) = (stack', enq', occ') ->
              occ_cnt occ' sub k = (occ_cnt occ sub k + (if Z.eq_dec key k then count_occ Z.eq_dec (s :: r) sub else 0))%nat).
    { intros st en Hv. rewrite (IH _ _ _ _ _ _ Hv sub k), occ_append_cnt. cbn [count_occ].
      destruct (Z.eq_dec s sub), (Z.eq_dec key k); lia. }
    destruct (memZ s enq); eapply Hstep; exact H.
Qed.

(* the stack never holds a processed key, and holds no key twice *)
Lemma occ_visit_nodup key : forall subs stack enq occ stack' enq' occ',
  occ_visit key subs stack enq occ = (stack', enq', occ') ->
  NoDup stack -> (forall k, In k stack -> In k enq) ->
  NoDup stack' /\ (forall k, In k stack' -> In k enq') /\
  (forall k, In k stack' -> In k stack \/ ~ In k enq).
Proof.
  induction subs as [|s r IH]; intros stack enq occ stack' enq' occ' H Hnd Hsub; cbn [occ_visit] in H.
  - injection H as <- <- _. repeat split; auto.
  - destruct (memZ s enq) eqn:Em.
    + exact (IH _ _ _ _ _ _ H Hnd Hsub).
    + assert (Hs : ~ In s enq) by (intros Hi; apply memZ_In in Hi; congruence).
      destruct (IH _ _ _ _ _ _ H) as [A [B C]].
      * constructor; [intros Hi; apply Hs; apply Hsub; exact Hi|exact Hnd].
      * intros k [<-|Hk]; [left; reflexivity|right; apply Hsub; exact Hk].
      * split; [exact A|]. split; [exact B|].
        intros k Hk. destruct (C k Hk) as [[<-|Hst]|Hn]; [right; exact Hs|left; exact Hst|].
        right. intros Hi. apply Hn. right; exact Hi.
Qed.

Definition cnt_inv (dic : list (Z * mcell)) (done stack enq : list Z) (occ : list (Z * list Z)) : Prop :=
  NoDup stack /\ (forall k, In k stack -> ~ In k done) /\
  (forall k, In k stack -> In k enq) /\ (forall k, In k done -> In k enq) /\
  forall sub k, occ_cnt occ sub k =
    if in_dec Z.eq_dec k done
    then match lookup k dic with Some c => count_occ Z.eq_dec (extract_subcells (cgeom c)) sub | None => O end
    else O.

Lemma occ_loop_cnt dic : forall fuel done stack enq occ out,
  occ_loop fuel dic stack enq occ = Ok out -> cnt_inv dic done stack enq occ ->
  exists done' enq', cnt_inv dic done' [] enq' out /\ (forall k, In k done -> In k done').
Proof.
  induction fuel as [|f IH]; intros done stack enq occ out H Hinv; cbn [occ_loop] in H.
  - destruct stack; [|discriminate]. injection H as <-. exists done, enq. auto.
  - destruct stack as [|key rest]; [injection H as <-; exists done, enq; auto|].
    destruct (lookup key dic) as [c|] eqn:Ek; [|discriminate].
    destruct (occ_visit key (extract_subcells (cgeom c)) rest enq occ) as [[st' en'] occ'] eqn:Ev.
    destruct Hinv as [Hnd [Hsd [Hse [Hde Hc]]]].
    inversion Hnd as [|? ? Hkr Hnd']; subst.
    destruct (occ_visit_nodup key _ _ _ _ _ _ _ Ev Hnd' (fun k Hk => Hse k (or_intror Hk))) as [A [B C]].
    destruct (occ_visit_spec key _ _ _ _ _ _ _ Ev) as [_ [Bq _]].
    destruct (IH (key :: done) st' en' occ' out H) as [done' [enq' [Hfin Hsub]]].
    + split; [exact A|]. split; [|split; [exact B|split]].
      * intros k Hk [Heq|Hd].
        -- subst k. destruct (C key Hk) as [Hr|Hn]; [contradiction|]. apply Hn. apply Hse. left; reflexivity.
        -- destruct (C k Hk) as [Hr|Hn]; [exact (Hsd k (or_intror Hr) Hd)|]. apply Hn. apply Hde. exact Hd.
      * intros k [Heq|Hd]; apply Bq; [subst k; apply Hse; left; reflexivity|apply Hde; exact Hd].
      * intros sub k. rewrite (occ_visit_cnt key _ _ _ _ _ _ _ Ev sub k), Hc.
        assert (Hkd : ~ In key done) by (apply Hsd; left; reflexivity).
        destruct (Z.eq_dec key k) as [<-|Hne].
        -- destruct (in_dec Z.eq_dec key done); [contradiction|].
           destruct (in_dec Z.eq_dec key (key :: done)) as [_|Hn]; [|exfalso; apply Hn; left; reflexivity].
           rewrite Ek. lia.
        -- destruct (in_dec Z.eq_dec k done) as [Hd|Hd];
             destruct (in_dec Z.eq_dec k (key :: done)) as [Hd2|Hd2]; try lia.
           ++ exfalso. apply Hd2. right; exact Hd.
           ++ exfalso. destruct Hd2 as [Heq|Hd2]; [congruence|contradiction].
    + exists done', enq'. split; [exact Hfin|]. intros k Hk. apply Hsub. right; exact Hk.
Qed.

(* for a table with distinct keys: the number of times [key] is listed under
   [sub] is the number of times the geometry of [key] mentions [sub], for every
   reachable key - so len(occurrences[sub]) is the number of mentions *)
Theorem find_occurrences_count dic occ : NoDup (map fst dic) -> find_occurrences dic = Ok occ ->
  forall key c sub, reachable dic key -> lookup key dic = Some c ->
    occ_cnt occ sub key = count_occ Z.eq_dec (extract_subcells (cgeom c)) sub.
Proof.
  intros Hnd H key c sub Hr Hl. pose proof H as H0. unfold find_occurrences in H.
  set (roots := map fst (filter (fun kv => Z.eqb (cuniv (snd kv)) 0) dic)) in *.
  assert (Hroots : NoDup roots).
  { unfold roots. clear -Hnd. induction dic as [|[k v] r IH]; simpl in *; [constructor|].
    inversion Hnd as [|? ? Hnot Hnd']; subst. destruct (cuniv v =? 0); simpl; [|exact (IH Hnd')].
    constructor; [|exact (IH Hnd')]. intros Hin. apply Hnot. apply in_map_iff in Hin.
    destruct Hin as [e [He Hin]]. apply filter_In in Hin. apply in_map_iff. exists e. tauto. }
  destruct (occ_loop_cnt dic _ [] (rev roots) roots [] occ H) as [done [enq [[_ [_ [_ [_ Hc]]]] _]]].
  { split; [apply NoDup_rev; exact Hroots|]. split; [intros k _ []|].
    split; [intros k Hk; apply in_rev; exact Hk|]. split; [intros k []|].
    intros s k. unfold occ_cnt. cbn [lookup]. destruct (in_dec Z.eq_dec k []) as [[]|]; reflexivity. }
  rewrite Hc.
  (* a reachable key is recorded under each of its subs, hence it is in done; a key
     that mentions nothing has count 0 on both sides *)
  destruct (in_dec Z.eq_dec key done) as [Hd|Hd]; [rewrite Hl; reflexivity|].
  destruct (count_occ Z.eq_dec (extract_subcells (cgeom c)) sub) eqn:En; [reflexivity|].
  exfalso. assert (Hin : In sub (extract_subcells (cgeom c))).
  { apply (count_occ_In Z.eq_dec). lia. }
  destruct (find_occurrences_complete dic occ H0 key c sub Hr Hl Hin) as [l [Hlo Hk]].
  pose proof (Hc sub key) as Hz. unfold occ_cnt in Hz. rewrite Hlo in Hz.
  destruct (in_dec Z.eq_dec key done); [contradiction|].
  apply (count_occ_In Z.eq_dec) in Hk. lia.
Qed.
