(* C13 — pot_fill with transformations means the same under all four inline
   flag combinations.
   Spec: a point p of type P; a transformation t acts on points ([act t p] is the
   point at which the ORIGINAL object has to be looked at: the interface law of
   C04, sense (tr_surf t s) p = sense s (act t p)).  senv : surface -> P -> bool
   gives the senses, D : cell -> P -> bool the cell denotations.  (senv, D) is a
   semantics of a state when every surface made by pot_transform obeys the
   interface law and D is a model of the cell table at every point. *)
From Coq Require Import List ZArith Bool Lia.
From T4V Require Import C13.Model C13.ModelTr C13.Spec C13.Proofs.
Import ListNotations.
Open Scope Z_scope.

Section Sem.
Context {Tr P : Type} (tr_eqb : Tr -> Tr -> bool) (act : Tr -> P -> P).
Hypothesis tr_eqb_act : forall a b, tr_eqb a b = true -> forall p, act a p = act b p.

Notation tstate := (@tstate Tr).

Definition surfs_ok (senv : Z -> P -> bool) (st : tstate) : Prop :=
  forall k s t, In (k, (s, t)) (tsdefs st) -> forall p, senv k p = senv s (act t p).

Definition cells_ok (senv D : Z -> P -> bool) (st : tstate) : Prop :=
  forall p, is_model (fun s => senv s p) (fun c => D c p) (tcells st).

Definition sem (st : tstate) (senv D : Z -> P -> bool) : Prop := surfs_ok senv st /\ cells_ok senv D st.

(* cache entries are right in every semantics of the state *)
Definition cache_ok (st : tstate) : Prop :=
  forall senv D, sem st senv D -> forall c t k, In (c, t, k) (tcache st) -> forall p, D k p = D c (act t p).

Definition wf (st : tstate) : Prop :=
  (forall k, lookup k (tcells st) <> None -> k <= tckey st) /\ 0 <= tskey st /\ cache_ok st.

(* the state only grows *)
Definition text (s s' : tstate) : Prop :=
  (forall j c, lookup j (tcells s) = Some c -> lookup j (tcells s') = Some c) /\
  incl (tsdefs s) (tsdefs s') /\ tckey s <= tckey s'.

Lemma text_refl s : text s s.
Proof. split; [auto|]. split; [apply incl_refl|lia]. Qed.

Lemma text_trans s1 s2 s3 : text s1 s2 -> text s2 s3 -> text s1 s3.
Proof.
  intros [A1 [B1 C1]] [A2 [B2 C2]]. split; [auto|]. split; [eapply incl_tran; eauto|lia].
Qed.

Lemma sem_mono s s' senv D : text s s' -> sem s' senv D -> sem s senv D.
Proof.
  intros [A [B _]] [Hs Hc]. split.
  - intros k x t Hin. apply Hs. apply B. exact Hin.
  - intros p j c Hj. apply (Hc p). apply A. exact Hj.
Qed.

(* adding a cell under a fresh key *)
Lemma add_cell_text (st : tstate) c sk (sd : list (Z * (Z * Tr))) (ca : list (Z * Tr * Z)) :
  (forall k, lookup k (tcells st) <> None -> k <= tckey st) -> incl (tsdefs st) sd ->
  text st (MkT (update (tckey st + 1) c (tcells st)) (tckey st + 1) sk sd ca).
Proof.
  intros Hb Hi. split; [|split; [exact Hi|cbn; lia]].
  intros j cj Hj. cbn [tcells]. rewrite lookup_update. destruct (Z.eqb (tckey st + 1) j) eqn:E; [|exact Hj].
  apply Z.eqb_eq in E. subst j. assert (tckey st + 1 <= tckey st) by (apply Hb; congruence). lia.
Qed.

Lemma add_cell_bounded (st : tstate) c sk (sd : list (Z * (Z * Tr))) (ca : list (Z * Tr * Z)) :
  (forall k, lookup k (tcells st) <> None -> k <= tckey st) ->
  forall k, lookup k (tcells (MkT (update (tckey st + 1) c (tcells st)) (tckey st + 1) sk sd ca)) <> None ->
            k <= tckey (MkT (update (tckey st + 1) c (tcells st)) (tckey st + 1) sk sd ca).
Proof.
  intros Hb k Hk. cbn [tcells tckey] in *. rewrite lookup_update in Hk.
  destruct (Z.eqb (tckey st + 1) k) eqn:E; [apply Z.eqb_eq in E; lia|]. specialize (Hb k Hk). lia.
Qed.

(* what a transformed tree means *)
Definition tden (senv D : Z -> P -> bool) (t : Tr) (g g' : geom) : Prop :=
  forall p, geval (fun s => senv s p) (fun c => D c p) g'
          = geval (fun s => senv s (act t p)) (fun c => D c (act t p)) g.

Definition rec_spec (t : Tr) (rec : Z -> tstate -> res (Z * tstate)) : Prop :=
  forall c s k s', wf s -> rec c s = Ok (k, s') ->
    wf s' /\ text s s' /\ forall senv D, sem s' senv D -> forall p, D k p = D c (act t p).

Lemma geval_node_ext (s1 r1 s2 r2 : Z -> bool) op l l' :
  Forall2 (fun a a' => geval s1 r1 a' = geval s2 r2 a) l l' ->
  geval s1 r1 (GNode op l') = geval s2 r2 (GNode op l).
Proof.
  intros H. destruct op; cbn [geval]; induction H as [|a a' r r' Ha _ IH]; cbn; try reflexivity;
    rewrite Ha, IH; reflexivity.
Qed.

Lemma ptrans_spec t rec : rec_spec t rec ->
  forall g st g' st', wf st -> ptrans rec t g st = Ok (g', st') ->
  wf st' /\ text st st' /\ forall senv D, sem st' senv D -> tden senv D t g g'.
Proof.
  intros Hrec. induction g as [s|c|op args IH] using geom_ind'; intros st g' st' Hwf H; cbn [ptrans] in H.
  - injection H as <- <-. destruct Hwf as [Hb [Hs Hc]].
    assert (Ht : text st (MkT (tcells st) (tckey st) (tskey st + 1)
                            (tsdefs st ++ [(tskey st + 1, (Z.abs s, t))]) (tcache st))).
    { split; [auto|]. split; [apply incl_appl, incl_refl|cbn; lia]. }
    split; [|split; [exact Ht|]].
    + split; [exact Hb|]. split; [cbn; lia|]. intros senv D Hsem. exact (Hc senv D (sem_mono _ _ _ _ Ht Hsem)).
    + intros senv D [Hso _] p. cbn [geval]. unfold lit.
      assert (Hk : forall q, senv (tskey st + 1) q = senv (Z.abs s) (act t q)).
      { intros q. apply (Hso (tskey st + 1) (Z.abs s) t). cbn [tsdefs]. apply in_or_app. right. left. reflexivity. }
      destruct (Z.leb 0 s) eqn:E.
      * apply Z.leb_le in E. assert (E2 : Z.leb 0 (tskey st + 1) = true) by (apply Z.leb_le; lia).
        rewrite E2, Hk. rewrite Z.abs_eq by lia. reflexivity.
      * apply Z.leb_gt in E. assert (E2 : Z.leb 0 (- (tskey st + 1)) = false) by (apply Z.leb_gt; lia).
        rewrite E2, Z.opp_involutive, Hk. rewrite Z.abs_neq by lia. reflexivity.
  - destruct (rec c st) as [[k s1]|e] eqn:Er; [|discriminate]. injection H as <- <-.
    destruct (Hrec _ _ _ _ Hwf Er) as [Hw [Ht Hd]]. split; [exact Hw|]. split; [exact Ht|].
    intros senv D Hsem p. cbn [geval]. apply (Hd senv D Hsem p).
  - destruct (map_st (ptrans rec t) args st) as [[args' s1]|e] eqn:Em; [|discriminate]. injection H as <- <-.
    assert (Hl : wf s1 /\ text st s1 /\
                 forall senv D, sem s1 senv D -> Forall2 (fun a a' => tden senv D t a a') args args').
    { clear -IH Hwf Em. revert st args' s1 Hwf Em. induction args as [|a r IHr]; intros st args' s1 Hwf Em; cbn [map_st] in Em.
      - injection Em as <- <-. split; [exact Hwf|]. split; [apply text_refl|]. intros; constructor.
      - inversion IH as [|? ? Ha Hr]; subst.
        destruct (ptrans rec t a st) as [[a' sa]|e] eqn:Ea; [|discriminate].
        destruct (map_st (ptrans rec t) r sa) as [[r' sr]|e] eqn:Erl; [|discriminate].
        injection Em as <- <-. destruct (Ha _ _ _ Hwf Ea) as [Hwa [Hta Hda]].
        destruct (IHr Hr _ _ _ Hwa Erl) as [Hwr [Htr Hdr]].
        split; [exact Hwr|]. split; [apply (text_trans _ _ _ Hta Htr)|].
        intros senv D Hsem. constructor; [|apply (Hdr senv D Hsem)].
        apply Hda. apply (sem_mono _ _ _ _ Htr Hsem). }
    destruct Hl as [Hw [Ht Hd]]. split; [exact Hw|]. split; [exact Ht|].
    intros senv D Hsem p. apply geval_node_ext. pose proof (Hd senv D Hsem) as Hf. clear -Hf.
    induction Hf as [|a a' r r' Ha _ IHd]; constructor; [apply Ha|exact IHd].
Qed.

Lemma cache_get_in c t l k : cache_get tr_eqb c t l = Some k ->
  exists t', In (c, t', k) l /\ tr_eqb t' t = true.
Proof.
  induction l as [|[[c0 t0] k0] r IH]; cbn [cache_get]; [discriminate|].
  destruct (Z.eqb c0 c && tr_eqb t0 t) eqn:E; intros H.
  - injection H as <-. apply andb_true_iff in E. destruct E as [Ec Et]. apply Z.eqb_eq in Ec; subst c0.
    exists t0. split; [left; reflexivity|exact Et].
  - destruct (IH H) as [t' [Hin Ht]]. exists t'. split; [right; exact Hin|exact Ht].
Qed.

(* cell_transform: the new cell is the old one looked at through the transformation *)
Lemma ctransform_spec : forall fuel t uc, rec_spec t (ctransform tr_eqb fuel t uc).
Proof.
  induction fuel as [|f IH]; intros t uc c st k st' Hwf H; cbn [ctransform] in H; [discriminate|].
  destruct (if uc then cache_get tr_eqb c t (tcache st) else None) as [k0|] eqn:Ec.
  - injection H as <- <-. split; [exact Hwf|]. split; [apply text_refl|].
    intros senv D Hsem p. destruct uc; [|discriminate].
    destruct (cache_get_in _ _ _ _ Ec) as [t' [Hin Ht]].
    destruct Hwf as [_ [_ Hc]]. rewrite (Hc senv D Hsem c t' k0 Hin p). rewrite (tr_eqb_act _ _ Ht). reflexivity.
  - destruct (lookup c (tcells st)) as [cell|] eqn:El; [|discriminate].
    destruct (ptrans (ctransform tr_eqb f t true) t (cgeom cell) st) as [[g' s1]|e] eqn:Ep; [|discriminate].
    injection H as <- <-.
    destruct (ptrans_spec t _ (IH t true) _ _ _ _ Hwf Ep) as [Hw1 [Ht1 Hd1]].
    destruct Hw1 as [Hb1 [Hs1 Hc1]].
    set (st2 := MkT (update (tckey s1 + 1) (set_geom cell g') (tcells s1)) (tckey s1 + 1) (tskey s1) (tsdefs s1)
                    (if uc then tcache s1 ++ [(c, t, tckey s1 + 1)] else tcache s1)).
    assert (Ht2 : text s1 st2) by (apply add_cell_text; [exact Hb1|apply incl_refl]).
    assert (Hmain : forall senv D, sem st2 senv D -> forall p, D (tckey s1 + 1) p = D c (act t p)).
    { intros senv D Hsem p. pose proof Hsem as [_ Hco].
      assert (Hk : lookup (tckey s1 + 1) (tcells st2) = Some (set_geom cell g')).
      { cbn [st2 tcells]. rewrite lookup_update, Z.eqb_refl. reflexivity. }
      rewrite (Hco p _ _ Hk). cbn [set_geom cgeom].
      rewrite (Hd1 senv D (sem_mono _ _ _ _ Ht2 Hsem) p).
      assert (Hc2 : lookup c (tcells st2) = Some cell).
      { apply (proj1 Ht2). apply (proj1 Ht1). exact El. }
      symmetry. apply (Hco (act t p) _ _ Hc2). }
    split; [|split; [apply (text_trans _ _ _ Ht1 Ht2)|exact Hmain]].
    split; [apply add_cell_bounded; exact Hb1|]. split; [exact Hs1|].
    intros senv D Hsem c0 t0 k0 Hin p. cbn [st2 tcache] in Hin.
    assert (Hold : In (c0, t0, k0) (tcache s1) -> D k0 p = D c0 (act t0 p)).
    { intros Hi. apply (Hc1 senv D (sem_mono _ _ _ _ Ht2 Hsem) _ _ _ Hi). }
    destruct uc; [|exact (Hold Hin)].
    apply in_app_or in Hin. destruct Hin as [Hi|[Heq|[]]]; [exact (Hold Hi)|].
    injection Heq as <- <- <-. apply (Hmain senv D Hsem).
Qed.

(* several transformations one after the other (TRCL list) *)
Lemma ctransform_chain_spec fuel uc : forall ts c st k st', wf st ->
  ctransform_chain tr_eqb fuel ts uc c st = Ok (k, st') ->
  wf st' /\ text st st' /\ forall senv D, sem st' senv D -> forall p, D k p = D c (fold_right act p ts).
Proof.
  induction ts as [|t r IH]; intros c st k st' Hwf H; cbn [ctransform_chain] in H.
  - injection H as <- <-. split; [exact Hwf|]. split; [apply text_refl|]. intros; reflexivity.
  - destruct (ctransform tr_eqb fuel t uc c st) as [[k1 s1]|e] eqn:E1; [|discriminate].
    destruct (ctransform_spec fuel t uc _ _ _ _ Hwf E1) as [Hw1 [Ht1 Hd1]].
    destruct (IH _ _ _ _ Hw1 H) as [Hw2 [Ht2 Hd2]].
    split; [exact Hw2|]. split; [apply (text_trans _ _ _ Ht1 Ht2)|].
    intros senv D Hsem p. rewrite (Hd2 senv D Hsem p). cbn [fold_right].
    apply (Hd1 senv D (sem_mono _ _ _ _ Ht2 Hsem)).
Qed.

(* ---------- pot_fill: one container, its fillers ---------- *)
(* every new cell denotes  container AND filler seen through the transformation,
   whatever the two inline flags are *)
Theorem make_cells_tr_den fuel fd fg ts key cell : forall elts st acc ks st', wf st ->
  lookup key (tcells st) = Some cell ->
  make_cells_tr tr_eqb fuel fd fg ts key cell elts st acc = Ok (ks, st') ->
  wf st' /\ text st st' /\
  exists news, ks = acc ++ news /\
    Forall2 (fun k' e => exists ec, lookup e (tcells st') = Some ec /\
                                    lookup k' (tcells st') = Some (filled_cell key cell e ec
                                       (cgeom (match lookup k' (tcells st') with Some c => c | None => cell end))))
            news elts /\
    forall senv D, sem st' senv D ->
      Forall2 (fun k' e => forall p, D k' p = D key p && D e (fold_right act p ts)) news elts.
Proof.
  induction elts as [|e r IH]; intros st acc ks st' Hwf Hk H; cbn [make_cells_tr] in H.
  - injection H as <- <-. split; [exact Hwf|]. split; [apply text_refl|].
    exists []. split; [rewrite app_nil_r; reflexivity|]. split; [constructor|intros; constructor].
  - destruct (lookup e (tcells st)) as [ec|] eqn:Ee; [|discriminate].
    destruct (ctransform_chain tr_eqb fuel ts (negb fg) e st) as [[e' s1]|er] eqn:Ec; [|discriminate].
    destruct (lookup e' (tcells s1)) as [ec'|] eqn:Ee'; [|discriminate].
    destruct (ctransform_chain_spec fuel (negb fg) _ _ _ _ _ Hwf Ec) as [Hw1 [Ht1 Hd1]].
    destruct Hw1 as [Hb1 [Hs1 Hc1]].
    set (g := fill_geometry fd fg key (cgeom cell) e' (cgeom ec')) in *.
    set (st2 := MkT (update (tckey s1 + 1) (filled_cell key cell e ec g) (tcells s1)) (tckey s1 + 1)
                    (tskey s1) (tsdefs s1) (tcache s1)) in *.
    assert (Ht2 : text s1 st2) by (apply add_cell_text; [exact Hb1|apply incl_refl]).
    assert (Hw2 : wf st2).
    { split; [apply add_cell_bounded; exact Hb1|]. split; [exact Hs1|].
      intros senv D Hsem c0 t0 k0 Hin p. apply (Hc1 senv D (sem_mono _ _ _ _ Ht2 Hsem) _ _ _ Hin). }
    assert (Hk2 : lookup key (tcells st2) = Some cell) by (apply (proj1 Ht2), (proj1 Ht1); exact Hk).
    destruct (IH _ _ _ _ Hw2 Hk2 H) as [Hw3 [Ht3 [news [Hks [Hrec3 Hn]]]]].
    split; [exact Hw3|]. split; [apply (text_trans _ _ _ Ht1 (text_trans _ _ _ Ht2 Ht3))|].
    assert (Hnew0 : lookup (tckey s1 + 1) (tcells st2) = Some (filled_cell key cell e ec g)).
    { cbn [st2 tcells]. rewrite lookup_update, Z.eqb_refl. reflexivity. }
    exists ((tckey s1 + 1) :: news). split; [rewrite Hks, <- app_assoc; reflexivity|].
    split.
    { constructor; [|exact Hrec3]. exists ec.
      split; [apply (proj1 Ht3), (proj1 Ht2), (proj1 Ht1); exact Ee|].
      rewrite (proj1 Ht3 _ _ Hnew0). unfold filled_cell. cbn [cgeom]. reflexivity. }
    intros senv D Hsem. constructor; [|apply (Hn senv D Hsem)].
    intros p. pose proof (sem_mono _ _ _ _ Ht3 Hsem) as Hsem2. pose proof Hsem2 as [_ Hco].
    assert (Hnew : lookup (tckey s1 + 1) (tcells st2) = Some (filled_cell key cell e ec g)).
    { cbn [st2 tcells]. rewrite lookup_update, Z.eqb_refl. reflexivity. }
    rewrite (Hco p _ _ Hnew). unfold filled_cell. cbn [cgeom]. unfold g.
    assert (He2 : lookup e' (tcells st2) = Some ec') by (apply (proj1 Ht2); exact Ee').
    rewrite (fill_geometry_den _ _ (tcells st2) fd fg key cell e' ec' (Hco p) Hk2 He2).
    f_equal. apply (Hd1 senv D (sem_mono _ _ _ _ Ht2 Hsem2) p).
Qed.
End Sem.

(* the state construct_volume_t4 starts the FILL loop with is well formed *)
Lemma wf_init {Tr P} (act : Tr -> P -> P) dic ckey skey :
  (forall k, lookup k dic <> None -> k <= ckey) -> 0 <= skey ->
  wf act (MkT dic ckey skey [] []).
Proof.
  intros Hb Hs. split; [exact Hb|]. split; [exact Hs|]. intros senv D _ c t k [].
Qed.
