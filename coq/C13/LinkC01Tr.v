(* C13 — link with C01 when FILL / TRCL transformations are present: the two
   runs create different cell (and surface) numbers, so the owner volume cannot be
   the same NUMBER; it is the volume of the CORRESPONDING cell (same position in
   the two conversion lists, same item of the flag-independent specification),
   which has the same provenance and material. *)
From Coq Require Import List ZArith Bool Lia.
From T4V Require C01.Model C01.Spec C01.ProofsTree C01.ProofsPrune C01.ProofsCells Properties.C01.
From T4V Require Import C13.Model C13.ModelTr C13.Spec C13.Proofs C13.ProofsTr C13.ProofsTr2 C13.LinkC01.
Import ListNotations.
Open Scope Z_scope.

Lemma geval_sigma_ext (s1 s2 rho : Z -> bool) g : (forall x, s1 x = s2 x) -> geval s1 rho g = geval s2 rho g.
Proof.
  intros H. induction g as [s|c|op args IH] using geom_ind'; cbn [geval].
  - unfold lit. rewrite !H. reflexivity.
  - reflexivity.
  - destruct op; induction IH as [|a l Ha _ IHl]; cbn; try reflexivity; rewrite Ha, IHl; reflexivity.
Qed.

Lemma Forall2_in_r {A B} (R : A -> B -> Prop) l1 l2 b :
  Forall2 R l1 l2 -> In b l2 -> exists a, In a l1 /\ R a b.
Proof.
  induction 1 as [|x y r1 r2 Hxy _ IH]; intros Hin; [destruct Hin|].
  destruct Hin as [<-|Hin]; [exists x; split; [left; reflexivity|exact Hxy]|].
  destruct (IH Hin) as [a [Ha Hr]]. exists a. split; [right; exact Ha|exact Hr].
Qed.

(* transfer of "c owns the point and no other listed cell does" along a
   position-wise correspondence of two duplicate-free lists *)
Lemma unique_transfer (f1 f2 : Z -> bool) : forall l1 l2,
  Forall2 (fun a b => f1 a = f2 b) l1 l2 -> NoDup l1 ->
  forall k1 k2, In (k1, k2) (combine l1 l2) ->
  (forall c, In c l1 -> f1 c = true -> c = k1) ->
  forall c', In c' l2 -> f2 c' = true -> c' = k2.
Proof.
  induction 1 as [|a1 a2 r1 r2 Ha Hr IH]; intros Hnd k1 k2 Hin Hu c' Hc' Hf; [destruct Hin|].
  inversion Hnd as [|? ? Hnot Hnd']; subst. cbn [combine] in Hin.
  destruct Hin as [Heq|Hin], Hc' as [<-|Hc'].
  - injection Heq as <- <-. reflexivity.
  - injection Heq as <- <-. exfalso.
    (* c' in r2 is paired with some c in r1 with f1 c = true, so c = a1, not in r1 *)
    destruct (Forall2_in_r _ _ _ _ Hr Hc') as [c [Hc Hcc]].
    apply Hnot. rewrite <- (Hu c (or_intror Hc)); [exact Hc|congruence].
  - exfalso. assert (Hk1 : In k1 r1) by (apply (in_combine_l _ _ _ _ Hin)).
    assert (a1 = k1) by (apply Hu; [left; reflexivity|congruence]). subst. contradiction.
  - apply (IH Hnd' k1 k2 Hin); auto. intros c Hc. apply Hu. right; exact Hc.
Qed.

Section Link.
Context {Tr P : Type} (act : Tr -> P -> P).

(* Two runs (final states sa, sb) with conversion lists todo1, todo2 whose members
   realise, position by position, the same items [its] (for the cells produced by
   pot_fill_tr this is C13_fill_tr_two_runs / two_runs_items; an unfilled level-0
   cell realises its own item in both).  (senv_i, D_i) are semantics of the two
   final states that give every item the same denotation at the point p (e.g.
   because they agree on the surfaces of the deck: spec_den_agree); sigma_i and
   matching_i are the TRIPOLI-4 level reading of senv_i at p.  C01's conversion
   loop, prune and written filter run on each embedded table.  Then: if the cell
   at some position owns p in run 1 (and no other listed cell does), the written
   owner in run 1 is the volume numbered by that cell, the written owner in run 2
   is the volume numbered by the cell AT THE SAME POSITION, and the two cells have
   the same provenance and material. *)
Theorem options_same_written_tr
  (sa sb : @tstate Tr) todo1 todo2 (its : list (@item P))
  (senv1 D1 senv2 D2 : Z -> P -> bool) (p : P)
  sigma1 matching1 sigma2 matching2 u0 u1 v0 v1 cfuel cnt1 cnt2 s1 s2 rn1 rn2 sk1 sk2 w1 w2 k1 k2 :
  Forall2 (matches act sa) todo1 its -> Forall2 (matches act sb) todo2 its ->
  sem act sa senv1 D1 -> sem act sb senv2 D2 ->
  Forall (fun it => i_den it senv1 p = i_den it senv2 p) its ->
  (forall s, sigmaM sigma1 matching1 s = senv1 s p) -> (forall s, sigmaM sigma2 matching2 s = senv2 s p) ->
  good_cells matching1 (tcells sa) -> good_cells matching2 (tcells sb) ->
  0 < u0 -> 0 < u1 -> C01.Spec.consistent sigma1 u0 u1 ->
  0 < v0 -> 0 < v1 -> C01.Spec.consistent sigma2 v0 v1 ->
  NoDup todo1 -> NoDup todo2 ->
  (forall k, In k todo1 -> k <= cnt1) -> (forall k, In k todo2 -> k <= cnt2) ->
  C01.Model.convert_cells cfuel (embed_cells (tcells sa)) matching1 u0 u1 todo1 (C01.Model.mkSt cnt1 [] [] []) = C01.Model.Ok s1 ->
  C01.Model.convert_cells cfuel (embed_cells (tcells sb)) matching2 v0 v1 todo2 (C01.Model.mkSt cnt2 [] [] []) = C01.Model.Ok s2 ->
  C01.Model.prune u0 u1 rn1 (C01.Model.vols s1) = C01.Model.Ok w1 ->
  C01.Model.prune v0 v1 rn2 (C01.Model.vols s2) = C01.Model.Ok w2 ->
  (forall r, rn1 = Some r -> C01.ProofsPrune.respects sigma1 r) ->
  (forall r, rn2 = Some r -> C01.ProofsPrune.respects sigma2 r) ->
  (forall k, In k sk1 -> k <= cnt1 /\ ~ In k todo1) -> (forall k, In k sk2 -> k <= cnt2 /\ ~ In k todo2) ->
  In (k1, k2) (combine todo1 todo2) ->
  D1 k1 p = true -> (forall c, In c todo1 -> D1 c p = true -> c = k1) ->
  (forall k, C01.ProofsCells.in_volume sigma1 (C01.Model.written sk1 w1) k <-> k = k1) /\
  (forall k, C01.ProofsCells.in_volume sigma2 (C01.Model.written sk2 w2) k <-> k = k2) /\
  exists c1 c2, lookup k1 (tcells sa) = Some c1 /\ lookup k2 (tcells sb) = Some c2 /\
                corigin c1 = corigin c2 /\ cmat c1 = cmat c2.
Proof.
  intros M1 M2 Hs1 Hs2 Hag Hsg1 Hsg2 Hg1 Hg2 Hu0 Hu1 Hc1 Hv0 Hv1 Hc2 Hn1 Hn2 Hl1 Hl2 Hr1 Hr2 Hp1 Hp2
         Hre1 Hre2 Hk1 Hk2 Hin Hown Huniq.
  (* position-wise: equal denotations at p, equal tags *)
  assert (Hrel : Forall2 (fun a b => D1 a p = D2 b p) todo1 todo2 /\
                 forall a b, In (a, b) (combine todo1 todo2) ->
                   exists c1 c2, lookup a (tcells sa) = Some c1 /\ lookup b (tcells sb) = Some c2 /\
                                 corigin c1 = corigin c2 /\ cmat c1 = cmat c2).
  { clear -M1 M2 Hs1 Hs2 Hag. revert todo2 M2 Hag.
    induction M1 as [|a it l1 li Ha _ IH]; intros todo2 M2 Hag.
    - inversion M2; subst. split; [constructor|intros ? ? []].
    - inversion M2 as [|b ? l2 ? Hb Hr]; subst. inversion Hag as [|? ? Hit Hag']; subst.
      destruct (IH _ Hr Hag') as [F T]. split.
      + constructor; [|exact F].
        destruct Ha as [ca [_ [_ [_ [_ [_ Fa]]]]]]. destruct Hb as [cb [_ [_ [_ [_ [_ Fb]]]]]].
        rewrite (Fa senv1 D1 Hs1 p), (Fb senv2 D2 Hs2 p). exact Hit.
      + intros x y [Heq|Hxy]; [|exact (T x y Hxy)]. injection Heq as <- <-.
        destruct Ha as [ca [La [_ [Oa [Ma _]]]]]. destruct Hb as [cb [Lb [_ [Ob [Mb _]]]]].
        exists ca, cb. repeat split; congruence. }
  destruct Hrel as [Hf Htags].
  assert (Hmod1 : is_model (sigmaM sigma1 matching1) (fun c => D1 c p) (tcells sa)).
  { intros k c Hl. rewrite (proj2 Hs1 p k c Hl). apply geval_sigma_ext. intros x. symmetry. apply Hsg1. }
  assert (Hmod2 : is_model (sigmaM sigma2 matching2) (fun c => D2 c p) (tcells sb)).
  { intros k c Hl. rewrite (proj2 Hs2 p k c Hl). apply geval_sigma_ext. intros x. symmetry. apply Hsg2. }
  pose proof (model_is_c01_cden sigma1 (fun c => D1 c p) matching1 (tcells sa) Hg1 Hmod1) as Hok1.
  pose proof (model_is_c01_cden sigma2 (fun c => D2 c p) matching2 (tcells sb) Hg2 Hmod2) as Hok2.
  assert (Hown2 : D2 k2 p = true).
  { clear -Hf Hin Hown. induction Hf as [|a b l1 l2 Hab _ IH]; [destruct Hin|].
    destruct Hin as [Heq|Hin]; [injection Heq as <- <-; congruence|exact (IH Hin)]. }
  pose proof (unique_transfer (fun c => D1 c p) (fun c => D2 c p) todo1 todo2 Hf Hn1 k1 k2 Hin Huniq) as Huniq2.
  assert (Hi1 : In k1 todo1) by (apply (in_combine_l _ _ _ _ Hin)).
  assert (Hi2 : In k2 todo2) by (apply (in_combine_r _ _ _ _ Hin)).
  destruct (T4V.Properties.C01.C01_partition sigma1 (fun c => D1 c p) (embed_cells (tcells sa)) matching1 u0 u1
              cfuel todo1 cnt1 s1 rn1 sk1 w1 k1 Hu0 Hu1 Hc1 Hok1 Hn1 Hl1 Hr1 Hp1 Hre1 Hk1 Hown Huniq) as [P1 _].
  destruct (T4V.Properties.C01.C01_partition sigma2 (fun c => D2 c p) (embed_cells (tcells sb)) matching2 v0 v1
              cfuel todo2 cnt2 s2 rn2 sk2 w2 k2 Hv0 Hv1 Hc2 Hok2 Hn2 Hl2 Hr2 Hp2 Hre2 Hk2 Hown2 Huniq2) as [P2 _].
  split; [exact (P1 Hi1)|]. split; [exact (P2 Hi2)|]. exact (Htags k1 k2 Hin).
Qed.
End Link.

(* ---------- the same with the surface environments CONSTRUCTED ---------- *)
From T4V Require Import C13.ProofsTr3.

Section LinkEnv.
Context {Tr P : Type} (act : Tr -> P -> P).

(* senv0 = the senses of the deck's own surfaces (numbers <= b).  Each run reads
   the surfaces made by pot_transform as the interface law prescribes
   ([senv_of]); that these environments satisfy the law on the final states and
   read the parsed cells alike is now proved (senv_of_ok, runs_surf_agree), not
   assumed.  What is still assumed of the semantics: D_i is a model of the cell
   table of run i at every point, and sigma_i / matching_i are the TRIPOLI-4 level
   reading of senv_of senv0 s_i at p. *)
Theorem options_same_written_tr_env
  (b : Z) (senv0 : Z -> P -> bool) dic0 tinfo fuel key
  (sa sb : @tstate Tr) todo1 todo2 (its : list (@item P))
  (D1 D2 : Z -> P -> bool) (p : P)
  sigma1 matching1 sigma2 matching2 u0 u1 v0 v1 cfuel cnt1 cnt2 s1 s2 rn1 rn2 sk1 sk2 w1 w2 k1 k2 :
  sinv b sa -> sinv b sb -> (forall k c, lookup k dic0 = Some c -> gb b (cgeom c)) ->
  spec act fuel dic0 tinfo key = Some its ->
  Forall2 (matches act sa) todo1 its -> Forall2 (matches act sb) todo2 its ->
  cells_ok (senv_of act senv0 sa) D1 sa -> cells_ok (senv_of act senv0 sb) D2 sb ->
  (forall s, sigmaM sigma1 matching1 s = senv_of act senv0 sa s p) ->
  (forall s, sigmaM sigma2 matching2 s = senv_of act senv0 sb s p) ->
  good_cells matching1 (tcells sa) -> good_cells matching2 (tcells sb) ->
  0 < u0 -> 0 < u1 -> C01.Spec.consistent sigma1 u0 u1 ->
  0 < v0 -> 0 < v1 -> C01.Spec.consistent sigma2 v0 v1 ->
  NoDup todo1 -> NoDup todo2 ->
  (forall k, In k todo1 -> k <= cnt1) -> (forall k, In k todo2 -> k <= cnt2) ->
  C01.Model.convert_cells cfuel (embed_cells (tcells sa)) matching1 u0 u1 todo1 (C01.Model.mkSt cnt1 [] [] []) = C01.Model.Ok s1 ->
  C01.Model.convert_cells cfuel (embed_cells (tcells sb)) matching2 v0 v1 todo2 (C01.Model.mkSt cnt2 [] [] []) = C01.Model.Ok s2 ->
  C01.Model.prune u0 u1 rn1 (C01.Model.vols s1) = C01.Model.Ok w1 ->
  C01.Model.prune v0 v1 rn2 (C01.Model.vols s2) = C01.Model.Ok w2 ->
  (forall r, rn1 = Some r -> C01.ProofsPrune.respects sigma1 r) ->
  (forall r, rn2 = Some r -> C01.ProofsPrune.respects sigma2 r) ->
  (forall k, In k sk1 -> k <= cnt1 /\ ~ In k todo1) -> (forall k, In k sk2 -> k <= cnt2 /\ ~ In k todo2) ->
  In (k1, k2) (combine todo1 todo2) ->
  D1 k1 p = true -> (forall c, In c todo1 -> D1 c p = true -> c = k1) ->
  (forall k, C01.ProofsCells.in_volume sigma1 (C01.Model.written sk1 w1) k <-> k = k1) /\
  (forall k, C01.ProofsCells.in_volume sigma2 (C01.Model.written sk2 w2) k <-> k = k2) /\
  exists c1 c2, lookup k1 (tcells sa) = Some c1 /\ lookup k2 (tcells sb) = Some c2 /\
                corigin c1 = corigin c2 /\ cmat c1 = cmat c2.
Proof.
  intros Ia Ib Hg Hs M1 M2 C1 C2.
  pose proof (senv_of_ok act b senv0 sa Ia) as [So1 _].
  pose proof (senv_of_ok act b senv0 sb Ib) as [So2 _].
  pose proof (spec_den_agree act dic0 tinfo _ _ (runs_surf_agree act b senv0 dic0 sa sb Ia Ib Hg) fuel key its Hs) as Hag.
  apply (options_same_written_tr act sa sb todo1 todo2 its
           (senv_of act senv0 sa) D1 (senv_of act senv0 sb) D2 p); auto.
  - split; assumption.
  - split; assumption.
  - revert Hag. apply Forall_impl. intros it H. apply H.
Qed.
End LinkEnv.
