(* C13 — provenance of the WRITTEN volumes, proved over C01's definitions
   (C01's model carries v_orig = idorigin but C01_cells does not state it):
   the volume that convert_cells stores under a cell number has the idorigin of
   that cell (for cells whose geometry is an operator node - what pot_fill
   builds), and renumber / remove_empty / remove_unused / written keep v_orig. *)
From Coq Require Import List ZArith Bool Lia.
From T4V Require Import C01.Model C01.Spec C01.ProofsTree C01.ProofsT4 C01.ProofsCells
                        C01.ProofsPrune C01.ProofsEmpty C01.ProofsWritten.
Import ListNotations.
Open Scope Z_scope.

Lemma lookup_In1 {V} k (v : V) d : lookup k d = Some v -> In (k, v) d.
Proof.
  induction d as [|[k' v'] r IH]; simpl; [discriminate|].
  destruct (k =? k') eqn:E; intros H.
  - apply Z.eqb_eq in E; subst. inversion H; subst. now left.
  - right; auto.
Qed.

Lemma In_lookup1 {V} k (v : V) d : NoDup (keys d) -> In (k, v) d -> lookup k d = Some v.
Proof.
  induction d as [|[k' v'] r IH]; intros Hn Hin; [destruct Hin|].
  simpl in Hn. inversion Hn as [|? ? Hnot Hn']; subst. simpl.
  destruct Hin as [Heq|Hin].
  - inversion Heq; subst. now rewrite Z.eqb_refl.
  - destruct (k =? k') eqn:E; [|auto]. apply Z.eqb_eq in E; subst. exfalso. apply Hnot.
    unfold keys. apply in_map_iff. exists (k', v). auto.
Qed.

(* ---------- the root volume of an operator node carries the cell's idorigin ---------- *)
Lemma to_t4_node_orig cref orig u0 u1 pid o args s j s' :
  to_t4 cref orig u0 u1 (Node pid o args) s = Ok (Some j, s') ->
  exists v, lookup j (vols s') = Some v /\ v_orig v = orig.
Proof.
  intros H. simpl in H. destruct o.
  - destruct (conv_equa (leaves_of args)) as [p m].
    destruct (conv_sel _ _ 0 args s) as [[ids1 s1]|]; [|discriminate].
    destruct (conv_sel cref _ 0 (refs_of args) s1) as [[ids2 s2]|]; [|discriminate].
    inversion H; subst. eexists. simpl. rewrite lookup_dset_same. split; reflexivity.
  - destruct (largest args) as [k|].
    + destruct (conv_sel _ _ 0 args s) as [[[|[main|] [|? ?]] s0]|]; try discriminate.
      destruct (lookup main (vols s0)) as [mv|]; [|discriminate].
      destruct (conv_sel _ _ 0 args s0) as [[ids1 s1]|]; [|discriminate].
      destruct (conv_sel cref _ 0 (refs_of args) s1) as [[ids2 s2]|]; [|discriminate].
      inversion H; subst. eexists. simpl. rewrite lookup_dset_same. split; reflexivity.
    + destruct (conv_sel _ _ 0 args s) as [[ids1 s1]|]; [|discriminate].
      destruct (conv_sel cref _ 0 (refs_of args) s1) as [[ids2 s2]|]; [|discriminate].
      destruct (conv_equa [u0; - u1]) as [p m].
      inversion H; subst. eexists. simpl. rewrite lookup_dset_same. split; reflexivity.
Qed.

Lemma pot_convert_node_orig cref matching u0 u1 i o args orig s j s' :
  pot_convert cref matching u0 u1 (Node i o args, orig) s = Ok (Some j, s') ->
  exists v, lookup j (vols s') = Some v /\ v_orig v = orig.
Proof.
  unfold pot_convert. simpl flag.
  destruct (map_state flag args (cnt s)) as [args1 n1]. simpl expand.
  destruct (map_state_res (expand matching) args1 (n1 + 1)) as [[args2 n2]|]; [|discriminate].
  simpl optimise.
  destruct (op_eqb o OInter && existsb is_none (map optimise args2)); [discriminate|].
  destruct o.
  - destruct (opposite _); [discriminate|]. apply to_t4_node_orig.
  - apply to_t4_node_orig.
Qed.

Section Orig.
  Variables (sigma cden : Z -> bool) (cells : dict cell) (matching : dict (list Z)) (u0 u1 : Z).
  Hypothesis Hu0 : 0 < u0.
  Hypothesis Hu1 : 0 < u1.
  Hypothesis Hcons : consistent sigma u0 u1.
  Hypothesis cells_ok : forall c g orig, lookup c cells = Some (g, orig) ->
    leaves_ok (msurf_ok matching) g /\ cden c = mden sigma cden matching g.

  (* the volume stored under a listed cell number has that cell's idorigin *)
  Lemma convert_cells_orig fuel : forall todo s s',
    convert_cells fuel cells matching u0 u1 todo s = Ok s' -> inv s ->
    NoDup todo -> (forall k, In k todo -> lookup k (vols s) = None /\ k <= cnt s) ->
    forall k v g orig, In k todo -> lookup k (vols s') = Some v ->
      lookup k cells = Some (g, orig) -> is_node g = true -> v_orig v = orig.
  Proof.
    induction todo as [|key r IH]; intros s s' H Hinv Hnd Hfr k v g orig Hin Hl Hc Hg; [destruct Hin|].
    simpl in H. destruct (lookup key cells) as [[g0 orig0]|] eqn:Ec; [|discriminate].
    destruct (cells_ok key g0 orig0 Ec) as [Hok _].
    inversion Hnd as [|? ? Hnotin Hnd']; subst.
    destruct (pot_convert _ matching u0 u1 (g0, orig0) s) as [[[j|] s1]|] eqn:Ep; [| |discriminate].
    - destruct (lookup j (vols s1)) as [vj|] eqn:Ej; [|discriminate].
      destruct (pot_convert_post sigma cden matching u0 u1 Hu0 Hu1 Hcons _
                  (convert_cellref_spec sigma cden cells matching u0 u1 Hu0 Hu1 Hcons cells_ok fuel)
                  g0 orig0 s _ _ Ep Hok Hinv) as (P1 & P2 & P3 & P4 & _).
      set (s1' := set_vol key (unfict vj) s1) in *.
      assert (Hi1 : inv s1').
      { intros x vx Hx. simpl in Hx. destruct (Z.eq_dec x key) as [->|Hne].
        - simpl. destruct (Hfr key (or_introl eq_refl)). lia.
        - rewrite lookup_dset_other in Hx by assumption. apply P3 in Hx. exact Hx. }
      assert (Hfr1 : forall x, In x r -> lookup x (vols s1') = None /\ x <= cnt s1').
      { intros x Hx. destruct (Hfr x (or_intror Hx)) as [Hn Hle]. split; [|simpl; lia].
        simpl. rewrite lookup_dset_other by (intros ->; contradiction).
        destruct (lookup x (vols s1)) eqn:El; [|reflexivity]. exfalso.
        destruct (P4 x) as [Hq|[[]|Hq]]; try congruence; lia. }
      destruct Hin as [<-|Hin].
      + destruct (convert_cells_sound sigma cden cells matching u0 u1 Hu0 Hu1 Hcons cells_ok
                    fuel r s1' s' H Hi1 Hnd' Hfr1) as (E1 & _).
        assert (Hk : lookup key (vols s') = Some (unfict vj)).
        { apply E1. simpl. apply lookup_dset_same. }
        rewrite Hk in Hl. inversion Hl; subst. simpl.
        rewrite Ec in Hc. inversion Hc; subst.
        destruct g as [a|c|i o args]; try discriminate.
        destruct (pot_convert_node_orig _ _ _ _ _ _ _ _ _ _ _ Ep) as [v0 [Hv0 Ho]].
        rewrite Ej in Hv0. injection Hv0 as Heq. rewrite Heq. exact Ho.
      + exact (IH s1' s' H Hi1 Hnd' Hfr1 k v g orig Hin Hl Hc Hg).
    - destruct (pot_convert_post sigma cden matching u0 u1 Hu0 Hu1 Hcons _
                  (convert_cellref_spec sigma cden cells matching u0 u1 Hu0 Hu1 Hcons cells_ok fuel)
                  g0 orig0 s _ _ Ep Hok Hinv) as (P1 & P2 & P3 & P4 & _).
      assert (Hfr1 : forall x, In x r -> lookup x (vols s1) = None /\ x <= cnt s1).
      { intros x Hx. destruct (Hfr x (or_intror Hx)) as [Hn Hle]. split; [|lia].
        destruct (lookup x (vols s1)) eqn:El; [|reflexivity]. exfalso.
        destruct (P4 x) as [Hq|[[]|Hq]]; try congruence; lia. }
      destruct Hin as [<-|Hin].
      + (* the cell was empty: no volume is stored under its number *)
        destruct (convert_cells_sound sigma cden cells matching u0 u1 Hu0 Hu1 Hcons cells_ok
                    fuel r s1 s' H P3 Hnd' Hfr1) as (_ & _ & _ & B & _).
        exfalso. assert (Hne : lookup key (vols s') <> None) by congruence.
        destruct (B key Hne) as [Hq|[Hq|Hq]].
        * destruct (P4 key Hq) as [Hq'|[[]|Hq']]; [destruct (Hfr key (or_introl eq_refl)); congruence|].
          destruct (Hfr key (or_introl eq_refl)). lia.
        * contradiction.
        * destruct (Hfr key (or_introl eq_refl)). lia.
      + exact (IH s1 s' H P3 Hnd' Hfr1 k v g orig Hin Hl Hc Hg).
  Qed.
End Orig.

(* ---------- prune and written keep v_orig ---------- *)
Definition orig_pres (d d' : dict vol) : Prop :=
  forall k v', In (k, v') d' -> exists v, In (k, v) d /\ v_orig v' = v_orig v.

Lemma orig_pres_refl d : orig_pres d d.
Proof. intros k v H. eauto. Qed.

Lemma orig_pres_trans a b c : orig_pres a b -> orig_pres b c -> orig_pres a c.
Proof.
  intros H1 H2 k v Hc. destruct (H2 _ _ Hc) as [vb [Hb E1]]. destruct (H1 _ _ Hb) as [va [Ha E2]].
  exists va. split; [exact Ha|congruence].
Qed.

Lemma In_dset {V} k (v : V) d e : In e (dset k v d) -> e = (k, v) \/ In e d.
Proof.
  induction d as [|[k' v'] r IH]; simpl.
  - intros [<-|[]]. left; reflexivity.
  - destruct (k =? k').
    + intros [<-|H]; [left; reflexivity|right; right; exact H].
    + intros [<-|H]; [right; left; reflexivity|].
      destruct (IH H) as [->|H']; [left; reflexivity|right; right; exact H'].
Qed.

Lemma In_ddel {V} k (d : dict V) e : In e (ddel k d) -> In e d.
Proof.
  induction d as [|[k' v'] r IH]; simpl; [auto|].
  destruct (k =? k'); [intros H; right; exact H|intros [<-|H]; [left; reflexivity|right; auto]].
Qed.

Lemma renumber_orig rn : forall d d', renumber rn d = Ok d' -> orig_pres d d'.
Proof.
  induction d as [|[k v] r IH]; intros d' H; simpl in H.
  - inversion H; subst. intros ? ? [].
  - destruct (map_opt (fun x => lookup x rn) (v_plus v)) as [p|];
      destruct (map_opt (fun x => lookup x rn) (v_minus v)) as [m|];
      destruct (renumber rn r) as [r'|e]; try discriminate.
    inversion H; subst. intros k0 v0 [Heq|Hin].
    + inversion Heq; subst. exists v. split; [left; reflexivity|reflexivity].
    + destruct (IH _ eq_refl _ _ Hin) as [v1 [H1 E]]. exists v1. split; [right; exact H1|exact E].
Qed.

Lemma empty_step_orig u0 u1 : forall todo d, orig_pres d (fst (empty_step u0 u1 todo d)).
Proof.
  induction todo as [|key r IH]; intros d; simpl; [apply orig_pres_refl|].
  destruct (lookup key d) as [v|] eqn:El; [|apply IH].
  destruct (is_union_ops (v_ops v)).
  - eapply orig_pres_trans; [|apply IH]. intros k v' Hin. destruct (In_dset _ _ _ _ Hin) as [Heq|Hin'].
    + inversion Heq; subst. exists v. split; [apply lookup_In1; exact El|reflexivity].
    + eauto.
  - specialize (IH (ddel key d)). destruct (empty_step u0 u1 r (ddel key d)) as [d' rem]. simpl in *.
    eapply orig_pres_trans; [|exact IH]. intros k v' Hin. exists v'. split; [apply (In_ddel _ _ _ Hin)|reflexivity].
Qed.

Lemma empty_scan_orig removed : forall d, orig_pres d (fst (empty_scan removed d)).
Proof.
  induction d as [|[k v] r IH]; simpl; [intros ? ? []|].
  destruct (empty_scan removed r) as [r' todo]. simpl in IH.
  assert (Hcons : forall v', v_orig v' = v_orig v -> orig_pres ((k, v) :: r) ((k, v') :: r')).
  { intros v' E k0 v0 [Heq|Hin].
    - inversion Heq; subst. exists v. split; [left; reflexivity|exact E].
    - destruct (IH _ _ Hin) as [v1 [H1 E1]]. exists v1. split; [right; exact H1|exact E1]. }
  destruct (v_ops v) as [[[|] ids]|]; simpl.
  - destruct (existsb (in_removed removed) ids); simpl; apply Hcons; reflexivity.
  - apply Hcons; reflexivity.
  - apply Hcons; reflexivity.
Qed.

Lemma empty_loop_orig u0 u1 : forall fuel todo removed d, orig_pres d (empty_loop fuel u0 u1 todo removed d).
Proof.
  induction fuel as [|f IH]; intros todo removed d; simpl.
  - destruct todo; apply orig_pres_refl.
  - destruct todo as [|t tr]; [apply orig_pres_refl|].
    pose proof (empty_step_orig u0 u1 (t :: tr) d) as H1.
    destruct (empty_step u0 u1 (t :: tr) d) as [d1 now]. simpl in H1.
    pose proof (empty_scan_orig (now ++ removed) d1) as H2.
    destruct (empty_scan (now ++ removed) d1) as [d2 todo']. simpl in H2.
    eapply orig_pres_trans; [exact H1|]. eapply orig_pres_trans; [exact H2|apply IH].
Qed.

Lemma filter_orig (p : Z * vol -> bool) d : orig_pres d (filter p d).
Proof. intros k v Hin. apply filter_In in Hin. exists v. split; [tauto|reflexivity]. Qed.

Lemma prune_orig u0 u1 rn d d' : prune u0 u1 rn d = Ok d' -> orig_pres d d'.
Proof.
  unfold prune. destruct rn as [r|].
  - destruct (renumber r d) as [d1|] eqn:Er; [|discriminate].
    destruct (lookup u0 r) as [v0|]; [|discriminate]. destruct (lookup u1 r) as [v1|]; [|discriminate].
    intros H; inversion H; subst. eapply orig_pres_trans; [apply (renumber_orig _ _ _ Er)|].
    eapply orig_pres_trans; [apply empty_loop_orig|apply filter_orig].
  - intros H; inversion H; subst. eapply orig_pres_trans; [apply empty_loop_orig|apply filter_orig].
Qed.

(* a written volume has the idorigin of the volume the conversion loop stored
   under the same number *)
Lemma written_orig u0 u1 rn skipped d d' k v' :
  NoDup (keys d) -> prune u0 u1 rn d = Ok d' -> lookup k (written skipped d') = Some v' ->
  exists v, lookup k d = Some v /\ v_orig v' = v_orig v.
Proof.
  intros Hn Hp Hl. apply lookup_In1 in Hl.
  destruct (filter_orig _ _ _ _ Hl) as [v1 [H1 E1]].
  destruct (prune_orig _ _ _ _ _ Hp _ _ H1) as [v [H0 E0]].
  exists v. split; [apply In_lookup1; assumption|congruence].
Qed.
