(* C13 — pot_fill with transformations, the whole recursion, against a
   specification that does not look at the inline flags: [spec] lists, for a cell,
   the cells that replace it after FILL development as (universe, provenance,
   material, denotation) items.  Every run (any flags, cache on or off) returns
   keys that match the items one by one; hence two runs under different flags
   return key lists of the same length whose members correspond position by
   position: same provenance, same material, same denotation (a key renaming). *)
From Coq Require Import List ZArith Bool Lia.
From T4V Require Import C13.Model C13.ModelTr C13.Spec C13.Proofs C13.ProofsTr.
Import ListNotations.
Open Scope Z_scope.

Section Spec.
Context {Tr P : Type} (tr_eqb : Tr -> Tr -> bool) (act : Tr -> P -> P).
Hypothesis tr_eqb_act : forall a b, tr_eqb a b = true -> forall p, act a p = act b p.

Notation tstate := (@tstate Tr).

Record item := MkItem {
  i_univ : Z; i_orig : list (Z * Z); i_dflt : Z; i_mat : Z;
  i_den : (Z -> P -> bool) -> P -> bool }.

Definition bot (_ : Z) : bool := false.

(* a cell of the table as parsed (no CellRef in its geometry) *)
Definition own_den (cell : mcell) (senv : Z -> P -> bool) (p : P) : bool :=
  geval (fun s => senv s p) bot (cgeom cell).

Definition orig_item (key : Z) (cell : mcell) : item :=
  MkItem (cuniv cell) (corigin cell) key (cmat cell) (own_den cell).

Definition fill_item (key : Z) (cell : mcell) (ts : list Tr) (it : item) : item :=
  MkItem (cuniv cell)
         (i_orig it ++ [(origin_head (i_orig it) (i_dflt it), origin_head (corigin cell) key)])
         (i_dflt it) (i_mat it)
         (fun senv p => own_den cell senv p && i_den it senv (fold_right act p ts)).

Fixpoint spec_each (rec : Z -> option (list item)) (elts : list Z) : option (list item) :=
  match elts with
  | [] => Some []
  | e :: r => match rec e, spec_each rec r with
              | Some a, Some b => Some (a ++ b)
              | _, _ => None
              end
  end.

Fixpoint spec (fuel : nat) (dic0 : list (Z * mcell)) (tinfo : list (Z * (option Tr * list Tr)))
    (key : Z) : option (list item) :=
  match fuel with
  | O => None
  | S f =>
      match lookup key dic0 with
      | None => None
      | Some cell =>
          match cfill cell with
          | None => Some [orig_item key cell]
          | Some u =>
              match spec_each (spec f dic0 tinfo) (cells_of_universe dic0 u) with
              | None => None
              | Some its => Some (map (fill_item key cell (tinfo_of tinfo key)) its)
              end
          end
      end
  end.

(* key k of state st realises item it *)
Definition matches (st : tstate) (k : Z) (it : item) : Prop :=
  exists c, lookup k (tcells st) = Some c /\ cuniv c = i_univ it /\ corigin c = i_orig it /\
            cmat c = i_mat it /\ (i_orig it = [] -> k = i_dflt it) /\
            forall senv D, sem act st senv D -> forall p, D k p = i_den it senv p.

Lemma matches_mono st st' k it : text st st' -> matches st k it -> matches st' k it.
Proof.
  intros Ht [c [Hl [A [B [C [E F]]]]]]. exists c. split; [apply (proj1 Ht); exact Hl|].
  repeat (split; [assumption|]). intros senv D Hs p. apply F. apply (sem_mono act _ _ _ _ Ht Hs).
Qed.

Definition norefs (dic0 : list (Z * mcell)) : Prop := forall k c, lookup k dic0 = Some c -> refs (cgeom c) = [].
Definition based (dic0 : list (Z * mcell)) (st : tstate) : Prop :=
  forall k c, lookup k dic0 = Some c -> lookup k (tcells st) = Some c.

Lemma own_den_ok dic0 st senv D key cell : norefs dic0 -> lookup key dic0 = Some cell ->
  based dic0 st -> sem act st senv D -> forall p, D key p = own_den cell senv p.
Proof.
  intros Hn Hl Hb [_ Hc] p. rewrite (Hc p key cell (Hb _ _ Hl)). unfold own_den.
  apply geval_ext. intros r Hr. rewrite (Hn _ _ Hl) in Hr. destruct Hr.
Qed.

Lemma Forall2_app_inv_matches st : forall ks1 its1 ks2 its2,
  Forall2 (matches st) ks1 its1 -> Forall2 (matches st) ks2 its2 ->
  Forall2 (matches st) (ks1 ++ ks2) (its1 ++ its2).
Proof. intros. apply Forall2_app; assumption. Qed.

Lemma cells_of_universe_keys dic0 u e : In e (cells_of_universe dic0 u) -> lookup e dic0 <> None.
Proof.
  unfold cells_of_universe. intros H. apply in_map_iff in H. destruct H as [[k c] [<- Hin]].
  apply filter_In in Hin. apply lookup_keys. apply in_map_iff. exists (k, c). tauto.
Qed.

(* to_process: the concatenation of what each element of the universe becomes *)
Lemma fill_each_tr_spec dic0 (rec : Z -> tstate -> res (list Z * tstate)) (srec : Z -> option (list item)) :
  (forall e st ks st', wf act st -> based dic0 st -> lookup e dic0 <> None -> rec e st = Ok (ks, st') ->
     wf act st' /\ text st st' /\ exists its, srec e = Some its /\ Forall2 (matches st') ks its) ->
  forall elts st ks st', wf act st -> based dic0 st -> (forall e, In e elts -> lookup e dic0 <> None) ->
  fill_each_tr rec elts st = Ok (ks, st') ->
  wf act st' /\ text st st' /\ exists its, spec_each srec elts = Some its /\ Forall2 (matches st') ks its.
Proof.
  intros Hrec. induction elts as [|e r IH]; intros st ks st' Hwf Hb Hin H; cbn [fill_each_tr] in H.
  - injection H as <- <-. split; [exact Hwf|]. split; [apply text_refl|]. exists []. split; [reflexivity|constructor].
  - destruct (rec e st) as [[ks1 st1]|er] eqn:E1; [|discriminate].
    destruct (fill_each_tr rec r st1) as [[ks2 st2]|er] eqn:E2; [|discriminate].
    injection H as <- <-.
    destruct (Hrec _ _ _ _ Hwf Hb (Hin e (or_introl eq_refl)) E1) as [Hw1 [Ht1 [its1 [Hs1 Hm1]]]].
    assert (Hb1 : based dic0 st1) by (intros k c Hl; apply (proj1 Ht1); apply Hb; exact Hl).
    destruct (IH _ _ _ Hw1 Hb1 (fun x Hx => Hin x (or_intror Hx)) E2) as [Hw2 [Ht2 [its2 [Hs2 Hm2]]]].
    split; [exact Hw2|]. split; [apply (text_trans _ _ _ Ht1 Ht2)|].
    exists (its1 ++ its2). cbn [spec_each]. rewrite Hs1, Hs2. split; [reflexivity|].
    apply Forall2_app; [|exact Hm2].
    clear -Hm1 Ht2. induction Hm1; constructor; auto. apply (matches_mono _ _ _ _ Ht2); assumption.
Qed.

(* the whole recursion *)
Theorem pot_fill_tr_spec fd fg dic0 tinfo : norefs dic0 ->
  forall fuel key st ks st', wf act st -> based dic0 st -> lookup key dic0 <> None ->
  pot_fill_tr tr_eqb fuel fd fg dic0 tinfo key st = Ok (ks, st') ->
  wf act st' /\ text st st' /\
  exists its, spec fuel dic0 tinfo key = Some its /\ Forall2 (matches st') ks its.
Proof.
  intros Hnr. induction fuel as [|f IH]; intros key st ks st' Hwf Hb Hk H; cbn [pot_fill_tr] in H; [discriminate|].
  destruct (lookup key dic0) as [cell|] eqn:Ek0; [|congruence].
  pose proof (Hb _ _ Ek0) as Ek. rewrite Ek in H. cbn [spec]. rewrite Ek0.
  destruct (cfill cell) as [u|].
  - destruct (fill_each_tr (pot_fill_tr tr_eqb f fd fg dic0 tinfo) (cells_of_universe dic0 u) st)
      as [[tp st1]|er] eqn:E1; [|discriminate].
    destruct (fill_each_tr_spec dic0 _ (spec f dic0 tinfo) IH _ _ _ _ Hwf Hb
                (cells_of_universe_keys dic0 u) E1) as [Hw1 [Ht1 [its [Hs Hm]]]].
    rewrite Hs.
    pose proof (proj1 Ht1 _ _ Ek) as Ek1.
    destruct (make_cells_tr_den tr_eqb act tr_eqb_act (S f) fd fg (tinfo_of tinfo key) key cell
                tp st1 [] ks st' Hw1 Ek1 H) as [Hw2 [Ht2 [news [Hks [Hrec Hden]]]]].
    cbn [app] in Hks. subst ks.
    split; [exact Hw2|]. split; [apply (text_trans _ _ _ Ht1 Ht2)|].
    eexists. split; [reflexivity|].
    assert (Hb2 : based dic0 st') by (intros k c Hl; apply (proj1 Ht2), (proj1 Ht1), Hb; exact Hl).
    (* zip: news / tp / its *)
    assert (Hden' : Forall2 (fun k' e => forall senv D, sem act st' senv D ->
                                forall p, D k' p = D key p && D e (fold_right act p (tinfo_of tinfo key))) news tp).
    { clear -Hrec Hden. revert Hden. induction Hrec as [|k' e l l' _ _ IHr]; intros Hden; constructor.
      - intros senv D Hs. specialize (Hden senv D Hs). inversion Hden; subst. assumption.
      - apply IHr. intros senv D Hs. specialize (Hden senv D Hs). inversion Hden; subst. assumption. }
    clear Hden Hs E1 H Ht1 Hw1 Ek1.
    revert its Hm Hden'. induction Hrec as [|k' e l l' Hr _ IHr]; intros its Hm Hden'.
    + inversion Hm; subst. constructor.
    + inversion Hm as [|? it ? its' Hme Hmr]; subst. inversion Hden' as [|? ? ? ? Hd Hdr]; subst.
      cbn [map]. constructor; [|exact (IHr its' Hmr Hdr)].
      destruct Hr as [ec [Hle Hlk]]. destruct (matches_mono _ _ _ _ Ht2 Hme) as [ce [Hce [A [B [C [E F]]]]]].
      rewrite Hle in Hce. injection Hce as ->.
      eexists. split; [exact Hlk|]. unfold filled_cell, fill_item. cbn [cuniv corigin cmat i_univ i_orig i_mat i_dflt i_den].
      split; [reflexivity|]. split.
      { rewrite B. f_equal. f_equal. f_equal. destruct (i_orig it) eqn:Eo; [cbn; apply E; reflexivity|reflexivity]. }
      split; [exact C|]. split.
      { intros Hnil. apply app_eq_nil in Hnil. destruct Hnil as [_ Hn]. discriminate. }
      intros senv D Hs p. rewrite (Hd senv D Hs p). rewrite (F senv D Hs).
      rewrite (own_den_ok dic0 st' senv D key cell Hnr Ek0 Hb2 Hs p). reflexivity.
  - injection H as <- <-. split; [exact Hwf|]. split; [apply text_refl|].
    eexists. split; [reflexivity|]. constructor; [|constructor].
    exists cell. split; [exact Ek|]. cbn [orig_item i_univ i_orig i_mat i_dflt i_den].
    split; [reflexivity|]. split; [reflexivity|]. split; [reflexivity|]. split; [reflexivity|].
    intros senv D Hs p. apply (own_den_ok dic0 st senv D key cell Hnr Ek0 Hb Hs p).
Qed.

(* ---------- two runs: a provenance-preserving correspondence of keys ---------- *)
(* k1 of run 1 and k2 of run 2 stand for the same filled cell *)
Definition same_cell (st1 st2 : tstate) (k1 k2 : Z) : Prop :=
  exists it, matches st1 k1 it /\ matches st2 k2 it.

Theorem pot_fill_tr_two_runs dic0 tinfo fuel key fd1 fg1 fd2 fg2 sa sb ks1 sa' ks2 sb' :
  norefs dic0 -> lookup key dic0 <> None ->
  wf act sa -> based dic0 sa -> wf act sb -> based dic0 sb ->
  pot_fill_tr tr_eqb fuel fd1 fg1 dic0 tinfo key sa = Ok (ks1, sa') ->
  pot_fill_tr tr_eqb fuel fd2 fg2 dic0 tinfo key sb = Ok (ks2, sb') ->
  Forall2 (same_cell sa' sb') ks1 ks2.
Proof.
  intros Hnr Hk Hwa Hba Hwb Hbb H1 H2.
  destruct (pot_fill_tr_spec fd1 fg1 dic0 tinfo Hnr fuel key sa ks1 sa' Hwa Hba Hk H1) as [_ [_ [its1 [S1 M1]]]].
  destruct (pot_fill_tr_spec fd2 fg2 dic0 tinfo Hnr fuel key sb ks2 sb' Hwb Hbb Hk H2) as [_ [_ [its2 [S2 M2]]]].
  rewrite S1 in S2. injection S2 as <-.
  clear -M1 M2. revert ks2 M2. induction M1 as [|k1 it l1 l Hm _ IH]; intros ks2 M2.
  - inversion M2; subst. constructor.
  - inversion M2 as [|k2 ? l2 ? Hm2 Hr2]; subst. constructor; [exists it; auto|exact (IH _ Hr2)].
Qed.

(* what the correspondence gives: same universe, provenance and material; and the
   same denotation at every point for semantics that read the surfaces of the
   items alike *)
Lemma same_cell_tags st1 st2 k1 k2 : same_cell st1 st2 k1 k2 ->
  exists c1 c2, lookup k1 (tcells st1) = Some c1 /\ lookup k2 (tcells st2) = Some c2 /\
    cuniv c1 = cuniv c2 /\ corigin c1 = corigin c2 /\ cmat c1 = cmat c2.
Proof.
  intros [it [[c1 [L1 [A1 [B1 [C1 _]]]]] [c2 [L2 [A2 [B2 [C2 _]]]]]]].
  exists c1, c2. repeat split; congruence.
Qed.
End Spec.

(* ---------- the items behind the correspondence, and when two semantics agree ---------- *)
Section Agree.
Context {Tr P : Type} (tr_eqb : Tr -> Tr -> bool) (act : Tr -> P -> P).
Hypothesis tr_eqb_act : forall a b, tr_eqb a b = true -> forall p, act a p = act b p.

Theorem two_runs_items dic0 tinfo fuel key fd1 fg1 fd2 fg2 sa sb ks1 sa' ks2 sb' :
  norefs dic0 -> lookup key dic0 <> None ->
  wf act sa -> based dic0 sa -> wf act sb -> based dic0 sb ->
  pot_fill_tr tr_eqb fuel fd1 fg1 dic0 tinfo key sa = Ok (ks1, sa') ->
  pot_fill_tr tr_eqb fuel fd2 fg2 dic0 tinfo key sb = Ok (ks2, sb') ->
  exists its, spec act fuel dic0 tinfo key = Some its /\
              Forall2 (matches act sa') ks1 its /\ Forall2 (matches act sb') ks2 its.
Proof.
  intros Hnr Hk Hwa Hba Hwb Hbb H1 H2.
  destruct (pot_fill_tr_spec tr_eqb act tr_eqb_act fd1 fg1 dic0 tinfo Hnr fuel key sa ks1 sa' Hwa Hba Hk H1)
    as [_ [_ [its1 [S1 M1]]]].
  destruct (pot_fill_tr_spec tr_eqb act tr_eqb_act fd2 fg2 dic0 tinfo Hnr fuel key sb ks2 sb' Hwb Hbb Hk H2)
    as [_ [_ [its2 [S2 M2]]]].
  rewrite S1 in S2. injection S2 as <-. exists its1. auto.
Qed.

(* two surface environments that give the cells of the parsed table the same own
   denotation (e.g. because they agree on the surfaces of the deck) *)
Definition surf_agree (dic0 : list (Z * mcell)) (senv1 senv2 : Z -> P -> bool) : Prop :=
  forall k c, lookup k dic0 = Some c -> forall p, own_den c senv1 p = own_den c senv2 p.

Lemma spec_den_agree dic0 tinfo senv1 senv2 : surf_agree dic0 senv1 senv2 ->
  forall fuel key its, spec act fuel dic0 tinfo key = Some its ->
  Forall (fun it => forall p, i_den it senv1 p = i_den it senv2 p) its.
Proof.
  intros Hag. induction fuel as [|f IH]; intros key its H; cbn [spec] in H; [discriminate|].
  destruct (lookup key dic0) as [cell|] eqn:Ek; [|discriminate].
  destruct (cfill cell) as [u|].
  - destruct (spec_each (spec act f dic0 tinfo) (cells_of_universe dic0 u)) as [its0|] eqn:Es; [|discriminate].
    injection H as <-.
    assert (H0 : Forall (fun it => forall p, i_den it senv1 p = i_den it senv2 p) its0).
    { revert its0 Es. induction (cells_of_universe dic0 u) as [|e r IHr]; intros its0 Es; cbn [spec_each] in Es.
      - injection Es as <-. constructor.
      - destruct (spec act f dic0 tinfo e) as [a|] eqn:Ea; [|discriminate].
        destruct (spec_each (spec act f dic0 tinfo) r) as [b|] eqn:Eb; [|discriminate].
        injection Es as <-. apply Forall_app. split; [exact (IH _ _ Ea)|exact (IHr _ eq_refl)]. }
    rewrite Forall_forall in *. intros it Hit. apply in_map_iff in Hit. destruct Hit as [it0 [<- Hin]].
    intros p. cbn [fill_item i_den]. rewrite (Hag _ _ Ek p), (H0 _ Hin). reflexivity.
  - injection H as <-. constructor; [|constructor]. intros p. cbn [orig_item i_den]. apply (Hag _ _ Ek p).
Qed.
End Agree.
