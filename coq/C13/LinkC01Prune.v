(* C13 — C13's model of the tail of convertMCNPGeometry (renumber_surfaces,
   remove_empty_volumes, remove_unused_volumes) and C01's model of the same lines
   (renumber, remove_empty, remove_unused = prune) compute the same table, up to
   the representation of the PLUS / MINUS sets (C13: strictly increasing lists,
   C01: lists in order of first insertion) and of the operands (C01: option Z). *)
From Coq Require Import List ZArith Bool Lia.
From T4V Require C01.Model C01.ProofsT4.
From T4V Require Import C13.Model C13.Proofs C13.ProofsDedup C13.LinkC01.
Import ListNotations.
Open Scope Z_scope.

Module M := T4V.C01.Model.

Definition same_set (a b : list Z) : Prop := forall x, In x a <-> In x b.

Definition ops_rel (o : option (opk * list Z)) (o' : option (M.op * list (option Z))) : Prop :=
  match o, o' with
  | None, None => True
  | Some (OUnion, l), Some (M.OUnion, l') => l' = map Some l
  | Some (OInte, l), Some (M.OInter, l') => l' = map Some l
  | _, _ => False
  end.

Definition vol_rel (v : volu) (v' : M.vol) : Prop :=
  same_set (pluses v) (M.v_plus v') /\ same_set (minuses v) (M.v_minus v') /\
  ops_rel (ops v) (M.v_ops v') /\ fictive v = M.v_fict v' /\ vorigin v = M.v_orig v'.

Definition vols_rel (d : list (Z * volu)) (d' : M.dict M.vol) : Prop :=
  Forall2 (fun kv kv' => fst kv = fst kv' /\ vol_rel (snd kv) (snd kv')) d d'.

(* ---------- membership ---------- *)
Lemma mem_memZ x l l' : same_set l l' -> M.mem x l' = memZ x l.
Proof.
  intros H. destruct (memZ x l) eqn:E.
  - apply memZ_In in E. apply C01.ProofsT4.mem_In. apply H. exact E.
  - destruct (M.mem x l') eqn:E'; [|reflexivity]. apply C01.ProofsT4.mem_In in E'. apply H in E'.
    apply memZ_In in E'. congruence.
Qed.

Lemma existsb_same (f g : Z -> bool) l l' : same_set l l' -> (forall x, f x = g x) ->
  existsb f l = existsb g l'.
Proof.
  intros H Hfg. destruct (existsb f l) eqn:E.
  - apply existsb_exists in E. destruct E as [x [Hx Hf]]. symmetry. apply existsb_exists.
    exists x. split; [apply H; exact Hx|rewrite <- Hfg; exact Hf].
  - destruct (existsb g l') eqn:E'; [|reflexivity]. apply existsb_exists in E'. destruct E' as [x [Hx Hg]].
    assert (existsb f l = true) by (apply existsb_exists; exists x; split; [apply H; exact Hx|rewrite Hfg; exact Hg]).
    congruence.
Qed.

Lemma empty_same v v' : vol_rel v v' -> M.vempty v' = volu_empty v.
Proof.
  intros [Hp [Hm _]]. unfold M.vempty, volu_empty. symmetry. apply existsb_same; [exact Hp|].
  intros x. symmetry. apply mem_memZ. exact Hm.
Qed.

(* ---------- dictionaries ---------- *)
Lemma lookup_rel d d' k : vols_rel d d' ->
  match lookup k d, M.lookup k d' with
  | Some v, Some v' => vol_rel v v'
  | None, None => True
  | _, _ => False
  end.
Proof.
  induction 1 as [|[k1 v1] [k2 v2] r r' [Hk Hv] _ IH]; cbn [lookup M.lookup]; [exact I|].
  cbn [fst snd] in *. subst k2. rewrite (Z.eqb_sym k k1). destruct (Z.eqb k1 k); [exact Hv|exact IH].
Qed.

Lemma update_rel d d' k v v' : vols_rel d d' -> vol_rel v v' -> vols_rel (update k v d) (M.dset k v' d').
Proof.
  induction 1 as [|[k1 v1] [k2 v2] r r' [Hk Hv] Hr IH]; intros Hvv; cbn [update M.dset].
  - constructor; [split; [reflexivity|exact Hvv]|constructor].
  - cbn [fst snd] in *. subst k2. rewrite (Z.eqb_sym k k1). destruct (Z.eqb k1 k).
    + constructor; [split; [reflexivity|exact Hvv]|exact Hr].
    + constructor; [split; [reflexivity|exact Hv]|exact (IH Hvv)].
Qed.

Lemma remove_rel d d' k : vols_rel d d' -> vols_rel (remove_key k d) (M.ddel k d').
Proof.
  induction 1 as [|[k1 v1] [k2 v2] r r' [Hk Hv] Hr IH]; cbn [remove_key M.ddel]; [constructor|].
  cbn [fst snd] in *. subst k2. rewrite (Z.eqb_sym k k1). destruct (Z.eqb k1 k); [exact Hr|].
  constructor; [split; [reflexivity|exact Hv]|exact IH].
Qed.

Lemma union_ops_rel v v' : vol_rel v v' ->
  M.is_union_ops (M.v_ops v') = match ops v with Some (OUnion, _) => true | _ => false end.
Proof.
  intros [_ [_ [Ho _]]]. unfold ops_rel in Ho.
  destruct (ops v) as [[[|] l]|], (M.v_ops v') as [[[|] l']|]; try contradiction; reflexivity.
Qed.

Lemma helper_rel u0 u1 v v' : vol_rel v v' ->
  vol_rel (MkVolu [u0] [u1] (ops v) (fictive v) (vorigin v))
          (M.mkVol [u0] [u1] (M.v_ops v') (M.v_orig v') (M.v_fict v')).
Proof.
  intros [_ [_ [Ho [Hf Hg]]]]. repeat split; cbn; auto.
Qed.

(* ---------- one pass over to_remove ---------- *)
Lemma step_rel u0 u1 : forall tr d d' gone d1 gone1,
  remove_step u0 u1 tr d gone = Ok (d1, gone1) -> vols_rel d d' ->
  vols_rel d1 (fst (M.empty_step u0 u1 tr d')) /\ gone1 = gone ++ snd (M.empty_step u0 u1 tr d').
Proof.
  induction tr as [|k r IH]; intros d d' gone d1 gone1 H Hr; cbn [remove_step M.empty_step] in *.
  - injection H as <- <-. cbn. rewrite app_nil_r. auto.
  - pose proof (lookup_rel d d' k Hr) as Hl.
    destruct (lookup k d) as [v|] eqn:E; [|discriminate].
    destruct (M.lookup k d') as [v'|]; [|contradiction].
    rewrite (union_ops_rel v v' Hl).
    destruct (ops v) as [[[|] args]|] eqn:Eo.
    + rewrite <- Eo in H. apply (IH _ _ _ _ _ H). apply update_rel; [exact Hr|apply helper_rel; exact Hl].
    + destruct (IH _ (M.ddel k d') _ _ _ H (remove_rel _ _ k Hr)) as [A B].
      destruct (M.empty_step u0 u1 r (M.ddel k d')) as [dd rem]. cbn [fst snd] in *.
      split; [exact A|]. rewrite B, <- app_assoc. reflexivity.
    + destruct (IH _ (M.ddel k d') _ _ _ H (remove_rel _ _ k Hr)) as [A B].
      destruct (M.empty_step u0 u1 r (M.ddel k d')) as [dd rem]. cbn [fst snd] in *.
      split; [exact A|]. rewrite B, <- app_assoc. reflexivity.
Qed.

(* ---------- the scan ---------- *)
Lemma in_removed_same removed removed' x : same_set removed removed' ->
  M.in_removed removed' (Some x) = memZ x removed.
Proof. intros H. cbn. apply mem_memZ. exact H. Qed.

Lemma filter_map_some (f : Z -> bool) (g : option Z -> bool) l :
  (forall x, g (Some x) = f x) -> filter g (map Some l) = map Some (filter f l).
Proof.
  intros H. induction l as [|x r IH]; cbn; [reflexivity|]. rewrite H. destruct (f x); cbn; rewrite IH; reflexivity.
Qed.

Lemma existsb_map_some (f : Z -> bool) (g : option Z -> bool) l :
  (forall x, g (Some x) = f x) -> existsb g (map Some l) = existsb f l.
Proof. intros H. induction l as [|x r IH]; cbn; [reflexivity|]. rewrite H, IH. reflexivity. Qed.

Lemma scan_rel removed removed' : same_set removed removed' -> forall d d',
  vols_rel d d' ->
  vols_rel (fst (prune_ops removed d)) (fst (M.empty_scan removed' d')) /\
  snd (prune_ops removed d) = snd (M.empty_scan removed' d').
Proof.
  intros Hs. induction 1 as [|[k1 v1] [k2 v2] r r' [Hk Hv] Hr IH]; cbn [prune_ops M.empty_scan]; [split; [constructor|reflexivity]|].
  cbn [fst snd] in *. subst k2. destruct IH as [A B].
  destruct (prune_ops removed r) as [p tr]. destruct (M.empty_scan removed' r') as [p' tr']. cbn [fst snd] in *. subst tr'.
  pose proof Hv as [Hp [Hm [Ho [Hf Hg]]]]. unfold ops_rel in Ho.
  destruct (ops v1) as [[[|] l]|] eqn:E1, (M.v_ops v2) as [[[|] l']|] eqn:E2; try contradiction.
  - subst l'. cbn [fst snd]. split; [|reflexivity]. constructor; [|exact A]. split; [reflexivity|].
    rewrite (filter_map_some (fun c => negb (memZ c removed))).
    2:{ intros x. rewrite (in_removed_same _ _ x Hs). reflexivity. }
    repeat split; cbn [pluses minuses ops fictive vorigin M.v_plus M.v_minus M.v_ops M.v_orig M.v_fict]; auto;
      try (apply Hp); try (apply Hm).
    unfold M.mk_ops. destruct (filter (fun c => negb (memZ c removed)) l); cbn; auto.
  - subst l'. rewrite (existsb_map_some (fun x => memZ x removed)).
    2:{ intros x. apply (in_removed_same _ _ x Hs). }
    destruct (existsb (fun x => memZ x removed) l); cbn [fst snd]; (split; [|reflexivity]);
      (constructor; [|exact A]); (split; [reflexivity|exact Hv]).
  - cbn [fst snd]. split; [|reflexivity]. constructor; [|exact A]. split; [reflexivity|exact Hv].
Qed.

(* ---------- the loop ---------- *)
Lemma loop_rel u0 u1 : forall fuel d d' removed removed' tr out,
  remove_loop fuel u0 u1 d removed tr = Ok out -> vols_rel d d' -> same_set removed removed' ->
  vols_rel out (M.empty_loop fuel u0 u1 tr removed' d').
Proof.
  induction fuel as [|f IH]; intros d d' removed removed' tr out H Hr Hs; cbn [remove_loop M.empty_loop] in *.
  - destruct tr; [injection H as <-; exact Hr|discriminate].
  - destruct tr as [|t tr']; [injection H as <-; exact Hr|].
    destruct (remove_step u0 u1 (t :: tr') d []) as [[d1 gone]|e] eqn:Es; [|discriminate].
    destruct (step_rel u0 u1 _ _ d' _ _ _ Es Hr) as [A B]. cbn [app] in B.
    destruct (M.empty_step u0 u1 (t :: tr') d') as [dC1 now]. cbn [fst snd] in *. subst gone.
    assert (Hs' : same_set (removed ++ now) (now ++ removed')).
    { intros x. rewrite !in_app_iff, (Hs x). tauto. }
    destruct (scan_rel _ _ Hs' d1 dC1 A) as [A2 B2].
    destruct (prune_ops (removed ++ now) d1) as [d2 tr2]. destruct (M.empty_scan (now ++ removed') dC1) as [dC2 trC2].
    cbn [fst snd] in *. subst trC2. exact (IH _ _ _ _ _ _ H A2 Hs').
Qed.

Lemma initial_todo d d' : vols_rel d d' ->
  map fst (filter (fun kv => volu_empty (snd kv)) d) = map fst (filter (fun kv => M.vempty (snd kv)) d').
Proof.
  induction 1 as [|[k1 v1] [k2 v2] r r' [Hk Hv] _ IH]; cbn [filter map fst snd]; [reflexivity|].
  cbn [fst snd] in *. subst k2. rewrite (empty_same _ _ Hv). destruct (volu_empty v1); cbn [map fst]; rewrite IH; reflexivity.
Qed.

Lemma rel_length d d' : vols_rel d d' -> length d = length d'.
Proof. induction 1; cbn; congruence. Qed.

Theorem remove_empty_rel u0 u1 d d' out : remove_empty_volumes d u0 u1 = Ok out -> vols_rel d d' ->
  vols_rel out (M.remove_empty u0 u1 d').
Proof.
  unfold remove_empty_volumes, M.remove_empty. intros H Hr.
  rewrite <- (initial_todo d d' Hr). rewrite <- (rel_length d d' Hr).
  apply (loop_rel u0 u1 _ d d' [] [] _ out H Hr). intros x; tauto.
Qed.

(* ---------- remove_unused_volumes ---------- *)
Lemma somes_map_some (l : list Z) : M.somes (map Some l) = l.
Proof. induction l as [|x r IH]; cbn; [reflexivity|]. rewrite IH. reflexivity. Qed.

Lemma used_rel d d' : vols_rel d d' ->
  flat_map (fun kv => match ops (snd kv) with Some (_, args) => args | None => [] end) d = M.used_ids d'.
Proof.
  unfold M.used_ids. induction 1 as [|[k1 v1] [k2 v2] r r' [Hk Hv] _ IH]; cbn [flat_map]; [reflexivity|].
  cbn [fst snd] in *. rewrite IH. f_equal. destruct Hv as [_ [_ [Ho _]]]. unfold ops_rel in Ho.
  destruct (ops v1) as [[[|] l]|], (M.v_ops v2) as [[[|] l']|]; try contradiction; subst; rewrite ?somes_map_some; reflexivity.
Qed.

Theorem remove_unused_rel d d' : vols_rel d d' -> vols_rel (remove_unused_volumes d) (M.remove_unused d').
Proof.
  intros Hr. unfold remove_unused_volumes, M.remove_unused. rewrite (used_rel d d' Hr).
  set (used := M.used_ids d'). clearbody used.
  induction Hr as [|[k1 v1] [k2 v2] r r' [Hk Hv] _ IH]; cbn [filter]; [constructor|].
  cbn [fst snd] in *. subst k2. destruct Hv as [Hp [Hm [Ho [Hf Hg]]]].
  rewrite <- Hf. rewrite (mem_memZ k1 used used) by (intros x; tauto).
  destruct (negb (fictive v1 && negb (memZ k1 used))); [|exact IH].
  constructor; [|exact IH]. split; [reflexivity|]. repeat split; auto; try apply Hp; try apply Hm.
Qed.

(* ---------- renumber_surfaces ---------- *)
Lemma zset_add_in_iff x l s : In s (zset_add x l) <-> s = x \/ In s l.
Proof.
  split; [apply zset_add_in|].
  induction l as [|y r IH]; cbn [zset_add]; [intros [->|[]]; left; reflexivity|].
  destruct (Z.ltb x y); [intros [->|H]; [left; reflexivity|right; exact H]|].
  destruct (Z.eqb x y) eqn:E.
  - apply Z.eqb_eq in E; subst y. intros [->|H]; [left; reflexivity|exact H].
  - intros [->|[->|H]]; [right; apply IH; left; reflexivity|left; reflexivity|right; apply IH; right; exact H].
Qed.

Lemma zset_of_list_iff l s : In s (zset_of_list l) <-> In s l.
Proof.
  induction l as [|x r IH]; cbn [zset_of_list fold_right]; [tauto|]. fold (zset_of_list r).
  rewrite zset_add_in_iff, IH. cbn [In]. split; intros [H|H]; auto.
Qed.

Lemma dedup_iff l s : In s (M.dedup l) <-> In s l.
Proof.
  induction l as [|x r IH]; cbn [M.dedup]; [tauto|].
  destruct (M.mem x r) eqn:E.
  - rewrite IH. cbn [In]. split; [auto|intros [<-|H]; [apply C01.ProofsT4.mem_In; exact E|exact H]].
  - cbn [In]. rewrite IH. tauto.
Qed.

Lemma renumber_ids_set (ren : list (Z * Z)) l p : renumber_ids ren l = Ok p ->
  forall y, In y p <-> exists x, In x l /\ lookup x ren = Some y.
Proof.
  intros H. apply renumber_ids_ok in H. induction H as [|s s' r r' Hs _ IH]; intros y.
  - split; [intros []|intros [x [[] _]]].
  - cbn [In]. rewrite IH. split.
    + intros [<-|[x [Hx Hl]]]; [exists s; auto|exists x; auto].
    + intros [x [[<-|Hx] Hl]]; [left; congruence|right; exists x; auto].
Qed.

Lemma map_opt_set (ren : list (Z * Z)) l : (forall x, In x l -> lookup x ren <> None) ->
  exists p, M.map_opt (fun x => M.lookup x ren) l = Some p /\
            forall y, In y p <-> exists x, In x l /\ lookup x ren = Some y.
Proof.
  induction l as [|a r IH]; intros H.
  - exists []. split; [reflexivity|]. intros y. split; [intros []|intros [x [[] _]]].
  - destruct IH as [p [Hp Hs]]; [intros x Hx; apply H; right; exact Hx|].
    cbn [M.map_opt]. rewrite lookup_same. destruct (lookup a ren) as [b|] eqn:Ea; [|exfalso; apply (H a (or_introl eq_refl)); exact Ea].
    rewrite Hp. exists (b :: p). split; [reflexivity|]. intros y. cbn [In]. rewrite Hs. split.
    + intros [<-|[x [Hx Hl]]]; [exists a; auto|exists x; auto].
    + intros [x [[<-|Hx] Hl]]; [left; congruence|right; exists x; auto].
Qed.

Lemma renumber_all_rel (ren : list (Z * Z)) : forall d d' out, renumber_all d ren = Ok out -> vols_rel d d' ->
  exists out', M.renumber ren d' = M.Ok out' /\ vols_rel out out'.
Proof.
  intros d d' out H Hr. revert out H. induction Hr as [|[k1 v1] [k2 v2] r r' [Hk Hv] _ IH]; intros out H; cbn [renumber_all] in H.
  - injection H as <-. exists []. split; [reflexivity|constructor].
  - cbn [fst snd] in *. subst k2. unfold renumber_volu in H.
    destruct (renumber_ids ren (pluses v1)) as [p|e] eqn:Ep; [|discriminate].
    destruct (renumber_ids ren (minuses v1)) as [m|e] eqn:Em; [|discriminate].
    destruct (renumber_all r ren) as [ro|e] eqn:Er; [|discriminate]. injection H as <-.
    destruct (IH _ eq_refl) as [ro' [Hro Hrel]].
    destruct Hv as [Hp [Hm [Ho [Hf Hg]]]].
    assert (Hdef : forall l l' q, same_set l l' -> renumber_ids ren l = Ok q -> forall x, In x l' -> lookup x ren <> None).
    { intros l l' q Hsl Hq x Hx. apply Hsl in Hx. apply renumber_ids_ok in Hq. clear -Hq Hx.
      induction Hq as [|s s' a b Hs _ IHq]; [destruct Hx|]. destruct Hx as [<-|Hx]; [congruence|auto]. }
    destruct (map_opt_set ren (M.v_plus v2) (Hdef _ _ _ Hp Ep)) as [p' [Hp' Sp]].
    destruct (map_opt_set ren (M.v_minus v2) (Hdef _ _ _ Hm Em)) as [m' [Hm' Sm]].
    cbn [M.renumber]. rewrite Hp', Hm', Hro. eexists. split; [reflexivity|].
    constructor; [|exact Hrel]. split; [reflexivity|].
    assert (Hset : forall l l' q q', same_set l l' -> renumber_ids ren l = Ok q ->
              (forall y, In y q' <-> exists x, In x l' /\ lookup x ren = Some y) ->
              same_set (zset_of_list q) (M.dedup q')).
    { intros l l' q q' Hsl Hq Hq' y. rewrite zset_of_list_iff, dedup_iff, Hq', (renumber_ids_set _ _ _ Hq).
      split; intros [a [Ha Hl]]; exists a; (split; [apply Hsl; exact Ha|exact Hl]). }
    split; [exact (Hset _ _ _ _ Hp Ep Sp)|]. split; [exact (Hset _ _ _ _ Hm Em Sm)|].
    cbn [pluses minuses ops fictive vorigin M.v_plus M.v_minus M.v_ops M.v_orig M.v_fict]. auto.
Qed.

(* ---------- the whole tail: C13's finish and C01's prune agree ---------- *)
Definition c01_rn {T} (S : Base.Scalar.Scalar T) (skip : bool) (surfs : list (Z * desc T)) : option (M.dict Z) :=
  if skip then None else Some (snd (remove_duplicate_surfaces S surfs)).

Theorem finish_is_c01_prune {T} (S : Base.Scalar.Scalar T) skip surfs volus u0 u1 s' v3 w d :
  finish S skip surfs volus u0 u1 = Ok (s', v3, w) -> vols_rel volus d ->
  exists d', M.prune u0 u1 (c01_rn S skip surfs) d = M.Ok d' /\ vols_rel v3 d'.
Proof.
  intros H Hr. unfold finish, dedup_stage in H. unfold c01_rn, M.prune. destruct skip.
  - destruct (remove_empty_volumes volus u0 u1) as [v2|e] eqn:Ee; [|discriminate].
    destruct (written_surfaces surfs (remove_unused_volumes v2)); [|discriminate]. injection H as _ <- _.
    eexists. split; [reflexivity|]. apply remove_unused_rel. apply (remove_empty_rel _ _ _ _ _ Ee Hr).
  - destruct (remove_duplicate_surfaces S surfs) as [new ren]. cbn [snd].
    destruct (renumber_surfaces volus ren) as [vv|e] eqn:Ev; [|discriminate].
    destruct (lookup u0 ren) as [a|] eqn:Ea; [|discriminate].
    destruct (lookup u1 ren) as [b|] eqn:Eb; [|discriminate].
    destruct (remove_empty_volumes vv a b) as [v2|e] eqn:Ee; [|discriminate].
    destruct (written_surfaces new (remove_unused_volumes v2)); [|discriminate]. injection H as _ <- _.
    assert (Ha' : renumber_all volus ren = Ok vv).
    { unfold renumber_surfaces in Ev. destruct volus; [discriminate|exact Ev]. }
    destruct (renumber_all_rel ren _ _ _ Ha' Hr) as [dv [Hd Hrel]].
    rewrite Hd, !lookup_same, Ea, Eb. eexists. split; [reflexivity|].
    apply remove_unused_rel. apply (remove_empty_rel _ _ _ _ _ Ee Hrel).
Qed.
