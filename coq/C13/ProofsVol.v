(* C13 — what the volume tables mean after the tail of convertMCNPGeometry:
   remove_empty_volumes / remove_unused_volumes keep the denotation of every
   volume they keep and only drop volumes that are empty (or FICTIVE and unused);
   together with de-duplication this gives the statement over the WRITTEN tables
   for --skip-deduplication on and off. *)
From Coq Require Import List ZArith NArith Bool Lia Reals Permutation.
From T4V Require Import Base.Scalar Base.Cases C13.Model C13.Spec C13.Proofs C13.ProofsDedup C13.ProofsFill.
Import ListNotations.
Open Scope Z_scope.

(* value of one VOLU line when the volumes it mentions have the values rho *)
Definition vval (sigma rho : Z -> bool) (v : volu) : bool :=
  match ops v with
  | None => equa sigma v
  | Some (OUnion, args) => equa sigma v || existsb rho args
  | Some (OInte, args) => equa sigma v && forallb rho args
  end.

(* rho is a denotation of the table: every volume has the value of its line *)
Definition vmodel (sigma rho : Z -> bool) (dic : list (Z * volu)) : Prop :=
  forall k v, lookup k dic = Some v -> rho k = vval sigma rho v.

(* the fuelled reading agrees with every denotation *)
Lemma opt_all_map_model (f : Z -> option bool) (rho : Z -> bool) args bs :
  (forall a b, f a = Some b -> b = rho a) ->
  opt_all (map f args) = Some bs -> bs = map rho args.
Proof.
  intros Hf. revert bs; induction args as [|a r IH]; intros bs H; cbn [map opt_all] in H.
  - injection H as <-. reflexivity.
  - destruct (f a) as [b|] eqn:Ea; [|discriminate].
    destruct (opt_all (map f r)) as [r'|] eqn:Er; [|discriminate]. injection H as <-.
    cbn [map]. rewrite (Hf _ _ Ea), (IH _ eq_refl). reflexivity.
Qed.

Lemma vden_model sigma rho dic : vmodel sigma rho dic ->
  forall fuel k b, vden fuel sigma dic k = Some b -> b = rho k.
Proof.
  intros Hm. induction fuel as [|f IH]; intros k b H; cbn [vden] in H; [discriminate|].
  destruct (lookup k dic) as [v|] eqn:Ek; [|discriminate].
  rewrite (Hm _ _ Ek). unfold vval.
  destruct (ops v) as [[[|] args]|].
  - destruct (opt_all (map (vden f sigma dic) args)) as [bs|] eqn:Eo; [|discriminate].
    injection H as <-. rewrite (opt_all_map_model _ rho _ _ (IH) Eo).
    f_equal. clear. induction args as [|a r IHr]; cbn; [reflexivity|]. rewrite IHr. reflexivity.
  - destruct (opt_all (map (vden f sigma dic) args)) as [bs|] eqn:Eo; [|discriminate].
    injection H as <-. rewrite (opt_all_map_model _ rho _ _ (IH) Eo).
    f_equal. clear. induction args as [|a r IHr]; cbn; [reflexivity|]. rewrite IHr. reflexivity.
  - injection H as <-. reflexivity.
Qed.

(* ---------- dict lemmas under distinct keys ---------- *)
Lemma lookup_remove_key {V} (d : list (Z * V)) k j : NoDup (map fst d) ->
  lookup j (remove_key k d) = if Z.eqb k j then None else lookup j d.
Proof.
  induction d as [|[k0 v0] r IH]; intros Hn; cbn [remove_key lookup map fst] in *.
  - destruct (Z.eqb k j); reflexivity.
  - inversion Hn as [|? ? Hnot Hn']; subst. destruct (Z.eqb k0 k) eqn:E.
    + apply Z.eqb_eq in E; subst k0. destruct (Z.eqb k j) eqn:Ej.
      * apply Z.eqb_eq in Ej; subst j. destruct (lookup k r) eqn:El; [|reflexivity].
        exfalso. apply Hnot. apply lookup_keys. congruence.
      * reflexivity.
    + cbn [lookup]. destruct (Z.eqb k0 j) eqn:Ej.
      * apply Z.eqb_eq in Ej; subst j. rewrite Z.eqb_sym in E. rewrite E. reflexivity.
      * apply IH. exact Hn'.
Qed.

Lemma remove_key_nodup {V} (d : list (Z * V)) k : NoDup (map fst d) -> NoDup (map fst (remove_key k d)).
Proof.
  induction d as [|[k0 v0] r IH]; intros Hn; cbn [remove_key map fst] in *; [constructor|].
  inversion Hn as [|? ? Hnot Hn']; subst. destruct (Z.eqb k0 k); [exact Hn'|].
  cbn [map fst]. constructor; [|apply IH; exact Hn'].
  intros Hin. apply Hnot. apply in_map_iff in Hin. destruct Hin as [e [He Hin]].
  apply in_map_iff. exists e. split; [exact He|apply (remove_key_in _ _ _ Hin)].
Qed.

Lemma update_keys_same {V} (d : list (Z * V)) k v : lookup k d <> None ->
  map fst (update k v d) = map fst d.
Proof.
  induction d as [|[k0 v0] r IH]; intros H; cbn [lookup update map fst] in *; [congruence|].
  destruct (Z.eqb k0 k) eqn:E; cbn [map fst].
  - apply Z.eqb_eq in E; subst; reflexivity.
  - f_equal. apply IH. exact H.
Qed.

Section Sound.
Variables (sigma rho : Z -> bool) (u0 u1 : Z).
Hypothesis Hhelper : sigma u0 = true -> sigma u1 = true.    (* x > 1 implies x > -1 *)

Lemma volu_empty_equa v : volu_empty v = true -> equa sigma v = false.
Proof.
  unfold volu_empty, equa. intros H. apply existsb_exists in H. destruct H as [s [Hp Hm]].
  unfold memZ in Hm. apply existsb_exists in Hm. destruct Hm as [s' [Hin He]]. apply Z.eqb_eq in He; subst s'.
  destruct (forallb sigma (pluses v)) eqn:E1; [|reflexivity].
  destruct (forallb (fun s0 => negb (sigma s0)) (minuses v)) eqn:E2; [|reflexivity].
  rewrite forallb_forall in E1, E2. specialize (E1 _ Hp). specialize (E2 _ Hin). rewrite E1 in E2. discriminate.
Qed.

Lemma equa_helper o f og : equa sigma (MkVolu [u0] [u1] o f og) = false.
Proof.
  unfold equa. cbn [pluses minuses forallb]. destruct (sigma u0) eqn:E0; [|reflexivity].
  rewrite (Hhelper eq_refl). reflexivity.
Qed.

(* a volume that remove_empty_volumes is entitled to treat as empty *)
Definition dead (v : volu) : Prop :=
  equa sigma v = false \/
  match ops v with Some (OInte, args) => exists a, In a args /\ rho a = false | _ => False end.

Lemma dead_false v : dead v -> (forall args, ops v <> Some (OUnion, args)) -> vval sigma rho v = false.
Proof.
  unfold dead, vval. intros [He|Hd] Hnu.
  - destruct (ops v) as [[[|] args]|]; [exfalso; apply (Hnu args); reflexivity|rewrite He; reflexivity|exact He].
  - destruct (ops v) as [[[|] args]|]; try contradiction. destruct Hd as [a [Hin Ha]].
    destruct (forallb rho args) eqn:E; [|apply andb_false_r].
    rewrite forallb_forall in E. rewrite (E _ Hin) in Ha. discriminate.
Qed.

(* the output table keeps flags and provenance; what it lost was false *)
Definition tracks (dic0 dic : list (Z * volu)) : Prop :=
  (forall k v, lookup k dic = Some v ->
     exists v0, lookup k dic0 = Some v0 /\ fictive v = fictive v0 /\ vorigin v = vorigin v0) /\
  (forall k, lookup k dic0 <> None -> lookup k dic = None -> rho k = false).

Lemma remove_step_sound dic0 : forall to_remove dic gone dic' gone',
  remove_step u0 u1 to_remove dic gone = Ok (dic', gone') ->
  NoDup (map fst dic) -> vmodel sigma rho dic -> tracks dic0 dic ->
  (forall k v, In k to_remove -> lookup k dic = Some v -> dead v) ->
  (forall k, In k gone -> rho k = false) ->
  NoDup (map fst dic') /\ vmodel sigma rho dic' /\ tracks dic0 dic' /\
  (forall k, In k gone' -> rho k = false).
Proof.
  induction to_remove as [|k r IH]; intros dic gone dic' gone' H Hn Hm Ht Hd Hg; cbn [remove_step] in H.
  - injection H as <- <-. auto.
  - destruct (lookup k dic) as [v|] eqn:Ek; [|discriminate].
    pose proof (Hd k v (or_introl eq_refl) Ek) as Hdead.
    assert (Hcase : (exists args, ops v = Some (OUnion, args)) \/ (forall args, ops v <> Some (OUnion, args))).
    { destruct (ops v) as [[[|] args]|]; [left; eauto|right; congruence|right; congruence]. }
    destruct Hcase as [[args Ho]|Hnu].
    + rewrite Ho in H. rewrite <- Ho in H.
      apply (IH _ _ _ _ H).
      * rewrite update_keys_same by congruence. exact Hn.
      * intros j vj Hj. rewrite lookup_update in Hj. destruct (Z.eqb k j) eqn:E; [|exact (Hm _ _ Hj)].
        apply Z.eqb_eq in E; subst j. injection Hj as <-.
        rewrite (Hm _ _ Ek). unfold vval. cbn [ops]. rewrite Ho, equa_helper.
        destruct Hdead as [He|Hf]; [rewrite He; reflexivity|rewrite Ho in Hf; contradiction].
      * destruct Ht as [Ht1 Ht2]. split.
        -- intros j vj Hj. rewrite lookup_update in Hj. destruct (Z.eqb k j) eqn:E; [|exact (Ht1 _ _ Hj)].
           apply Z.eqb_eq in E; subst j. injection Hj as <-. cbn [fictive vorigin]. exact (Ht1 _ _ Ek).
        -- intros j Hj0 Hj. rewrite lookup_update in Hj. destruct (Z.eqb k j); [discriminate|exact (Ht2 _ Hj0 Hj)].
      * intros j vj Hin Hj. rewrite lookup_update in Hj. destruct (Z.eqb k j) eqn:E; [|exact (Hd _ _ (or_intror Hin) Hj)].
        injection Hj as <-. left. apply equa_helper.
      * exact Hg.
    + assert (Hk : rho k = false) by (rewrite (Hm _ _ Ek); apply (dead_false _ Hdead Hnu)).
      assert (H' : remove_step u0 u1 r (remove_key k dic) (gone ++ [k]) = Ok (dic', gone')).
      { destruct (ops v) as [[[|] args]|]; [exfalso; apply (Hnu args); reflexivity|exact H|exact H]. }
      apply (IH _ _ _ _ H').
      * apply remove_key_nodup; exact Hn.
      * intros j vj Hj. rewrite (lookup_remove_key _ _ _ Hn) in Hj. destruct (Z.eqb k j); [discriminate|exact (Hm _ _ Hj)].
      * destruct Ht as [Ht1 Ht2]. split.
        -- intros j vj Hj. rewrite (lookup_remove_key _ _ _ Hn) in Hj. destruct (Z.eqb k j); [discriminate|exact (Ht1 _ _ Hj)].
        -- intros j Hj0 Hj. rewrite (lookup_remove_key _ _ _ Hn) in Hj. destruct (Z.eqb k j) eqn:E.
           ++ apply Z.eqb_eq in E; subst j. exact Hk.
           ++ exact (Ht2 _ Hj0 Hj).
      * intros j vj Hin Hj. rewrite (lookup_remove_key _ _ _ Hn) in Hj. destruct (Z.eqb k j); [discriminate|].
        exact (Hd _ _ (or_intror Hin) Hj).
      * intros j Hin. apply in_app_or in Hin. destruct Hin as [Hin|[<-|[]]]; [exact (Hg _ Hin)|exact Hk].
Qed.

Lemma existsb_filter_false (f : Z -> bool) args :
  existsb rho (filter f args) = existsb rho args \/ exists a, In a args /\ f a = false /\ rho a = true.
Proof.
  induction args as [|a r IH]; cbn [filter existsb]; [left; reflexivity|].
  destruct IH as [IH|[b [Hb [Hf Hr]]]]; [|right; exists b; split; [right; exact Hb|auto]].
  destruct (f a) eqn:Ef.
  - cbn [existsb]. left. rewrite IH. reflexivity.
  - destruct (rho a) eqn:Er; [right; exists a; split; [left; reflexivity|auto]|left; rewrite IH; reflexivity].
Qed.

Definition prune_post (removed : list Z) (dic dic2 : list (Z * volu)) (tr : list Z) : Prop :=
  map fst dic2 = map fst dic /\ vmodel sigma rho dic2 /\
  (forall k v, lookup k dic2 = Some v ->
     exists v1, lookup k dic = Some v1 /\ fictive v = fictive v1 /\ vorigin v = vorigin v1) /\
  (forall k v, In k tr -> lookup k dic2 = Some v -> dead v) /\
  (forall k, In k tr -> In k (map fst dic)).

(* consing one entry in front of a pruned tail *)
Lemma prune_cons removed k v v' r r' tr tr' :
  prune_post removed r r' tr -> ~ In k (map fst r) ->
  rho k = vval sigma rho v' -> fictive v' = fictive v -> vorigin v' = vorigin v ->
  (tr' = tr \/ (tr' = k :: tr /\ dead v')) ->
  prune_post removed ((k, v) :: r) ((k, v') :: r') tr'.
Proof.
  intros [Hk [Hm2 [Hp [Hd Hin]]]] Hnot Hv' Hf Ho Htr. unfold prune_post.
  split; [cbn [map fst]; f_equal; exact Hk|]. split; [|split; [|split]].
  - intros j vj Hj. cbn [lookup] in Hj. destruct (Z.eqb k j) eqn:E; [|exact (Hm2 _ _ Hj)].
    apply Z.eqb_eq in E; subst j. injection Hj as <-. exact Hv'.
  - intros j vj Hj. cbn [lookup] in *. destruct (Z.eqb k j); [|exact (Hp _ _ Hj)].
    injection Hj as <-. exists v. auto.
  - intros j vj Hj Hl. cbn [lookup] in Hl. destruct (Z.eqb k j) eqn:E.
    + apply Z.eqb_eq in E; subst j. injection Hl as <-.
      destruct Htr as [->|[-> Hdv]]; [exfalso; apply Hnot; apply Hin; exact Hj|exact Hdv].
    + destruct Htr as [->|[-> _]]; [exact (Hd _ _ Hj Hl)|].
      destruct Hj as [<-|Hj]; [rewrite Z.eqb_refl in E; discriminate|exact (Hd _ _ Hj Hl)].
  - intros j Hj. cbn [map fst]. destruct Htr as [->|[-> _]]; [right; apply Hin; exact Hj|].
    destruct Hj as [<-|Hj]; [left; reflexivity|right; apply Hin; exact Hj].
Qed.

Lemma prune_ops_sound removed : (forall k, In k removed -> rho k = false) ->
  forall dic, vmodel sigma rho dic -> NoDup (map fst dic) ->
  prune_post removed dic (fst (prune_ops removed dic)) (snd (prune_ops removed dic)).
Proof.
  intros Hrem. induction dic as [|[k v] r IH]; intros Hm Hn; cbn [prune_ops].
  - unfold prune_post. cbn [fst snd]. split; [reflexivity|]. split; [intros ? ? H; discriminate|].
    split; [intros ? ? H; discriminate|]. split; [intros ? ? []|intros ? []].
  - cbn [map fst] in Hn. inversion Hn as [|? ? Hnot Hn']; subst.
    assert (Hmr : vmodel sigma rho r).
    { intros j vj Hj. apply Hm. cbn [lookup]. destruct (Z.eqb k j) eqn:E; [|exact Hj].
      apply Z.eqb_eq in E; subst j. exfalso. apply Hnot. apply lookup_keys. congruence. }
    specialize (IH Hmr Hn'). destruct (prune_ops removed r) as [r' tr]. cbn [fst snd] in IH.
    assert (Hv : rho k = vval sigma rho v) by (apply Hm; cbn [lookup]; rewrite Z.eqb_refl; reflexivity).
    destruct (ops v) as [[[|] args]|] eqn:Eo; cbn [fst snd].
    + apply (prune_cons removed k v _ r r' tr tr IH Hnot); [|reflexivity|reflexivity|left; reflexivity].
      rewrite Hv. unfold vval. rewrite Eo. cbn [ops]. unfold equa. cbn [pluses minuses].
      assert (He : existsb rho (filter (fun c => negb (memZ c removed)) args) = existsb rho args).
      { destruct (existsb_filter_false (fun c => negb (memZ c removed)) args) as [E|[a [Ha [Hf Hr]]]]; [exact E|].
        apply negb_false_iff in Hf. unfold memZ in Hf. apply existsb_exists in Hf.
        destruct Hf as [x [Hx Hxe]]. apply Z.eqb_eq in Hxe; subst x. rewrite (Hrem _ Hx) in Hr. discriminate. }
      destruct (filter (fun c => negb (memZ c removed)) args) as [|a0 l0] eqn:Ef.
      * cbn [existsb] in He. rewrite <- He. rewrite orb_false_r. reflexivity.
      * rewrite <- He. reflexivity.
    + destruct (existsb (fun x => memZ x removed) args) eqn:Ee; cbn [fst snd].
      * apply (prune_cons removed k v v r r' tr (k :: tr) IH Hnot Hv eq_refl eq_refl).
        right. split; [reflexivity|]. right. rewrite Eo. apply existsb_exists in Ee.
        destruct Ee as [a [Ha Hma]]. exists a. split; [exact Ha|]. unfold memZ in Hma.
        apply existsb_exists in Hma. destruct Hma as [x [Hx Hxe]]. apply Z.eqb_eq in Hxe; subst x. exact (Hrem _ Hx).
      * apply (prune_cons removed k v v r r' tr tr IH Hnot Hv eq_refl eq_refl). left; reflexivity.
    + apply (prune_cons removed k v v r r' tr tr IH Hnot Hv eq_refl eq_refl). left; reflexivity.
Qed.
End Sound.

Section Sound2.
Variables (sigma rho : Z -> bool) (u0 u1 : Z).
Hypothesis Hhelper : sigma u0 = true -> sigma u1 = true.

Lemma tracks_trans_flags dic0 dic dic2 :
  tracks rho dic0 dic -> map fst dic2 = map fst dic ->
  (forall k v, lookup k dic2 = Some v ->
     exists v1, lookup k dic = Some v1 /\ fictive v = fictive v1 /\ vorigin v = vorigin v1) ->
  tracks rho dic0 dic2.
Proof.
  intros [T1 T2] Hk Hp. split.
  - intros k v Hl. destruct (Hp _ _ Hl) as [v1 [H1 [Hf Ho]]]. destruct (T1 _ _ H1) as [v0 [H0 [Hf0 Ho0]]].
    exists v0. split; [exact H0|]. split; congruence.
  - intros k H0 Hl. apply (T2 _ H0). destruct (lookup k dic) eqn:E; [|reflexivity].
    exfalso. assert (lookup k dic2 <> None) by (apply lookup_keys; rewrite Hk; apply lookup_keys; congruence). congruence.
Qed.

Lemma remove_loop_sound dic0 : forall fuel dic removed to_remove dic',
  remove_loop fuel u0 u1 dic removed to_remove = Ok dic' ->
  NoDup (map fst dic) -> vmodel sigma rho dic -> tracks rho dic0 dic ->
  (forall k v, In k to_remove -> lookup k dic = Some v -> dead sigma rho v) ->
  (forall k, In k removed -> rho k = false) ->
  NoDup (map fst dic') /\ vmodel sigma rho dic' /\ tracks rho dic0 dic'.
Proof.
  induction fuel as [|f IH]; intros dic removed to_remove dic' H Hn Hm Ht Hd Hr; cbn [remove_loop] in H.
  - destruct to_remove; [injection H as <-; auto|discriminate].
  - destruct to_remove as [|t tr]; [injection H as <-; auto|].
    destruct (remove_step u0 u1 (t :: tr) dic []) as [[dic1 gone]|e] eqn:Es; [|discriminate].
    destruct (remove_step_sound sigma rho u0 u1 Hhelper dic0 _ _ _ _ _ Es Hn Hm Ht Hd (fun k (H0 : In k []) => match H0 with end))
      as [Hn1 [Hm1 [Ht1 Hg]]].
    assert (Hr' : forall k, In k (removed ++ gone) -> rho k = false).
    { intros k Hin. apply in_app_or in Hin. destruct Hin; auto. }
    pose proof (prune_ops_sound sigma rho (removed ++ gone) Hr' dic1 Hm1 Hn1) as Hp.
    destruct (prune_ops (removed ++ gone) dic1) as [dic2 tr2]. cbn [fst snd] in Hp.
    destruct Hp as [Hk [Hm2 [Hfl [Hd2 _]]]].
    apply (IH _ _ _ _ H).
    + rewrite Hk. exact Hn1.
    + exact Hm2.
    + apply (tracks_trans_flags dic0 dic1 dic2 Ht1 Hk Hfl).
    + exact Hd2.
    + exact Hr'.
Qed.

Lemma lookup_filter_keys (f : Z * volu -> bool) (d : list (Z * volu)) k v : NoDup (map fst d) ->
  lookup k (filter f d) = Some v -> lookup k d = Some v /\ f (k, v) = true.
Proof.
  intros Hn H. apply lookup_In in H. apply filter_In in H. destruct H as [Hin Hf].
  split; [apply (In_lookup _ _ _ Hn Hin)|exact Hf].
Qed.

Theorem remove_empty_sound dic dic' :
  remove_empty_volumes dic u0 u1 = Ok dic' ->
  NoDup (map fst dic) -> vmodel sigma rho dic ->
  NoDup (map fst dic') /\ vmodel sigma rho dic' /\ tracks rho dic dic'.
Proof.
  intros H Hn Hm. unfold remove_empty_volumes in H.
  apply (remove_loop_sound dic _ _ _ _ _ H Hn Hm).
  - split; [intros k v Hl; exists v; auto|intros k H0 H1; congruence].
  - intros k v Hin Hl. left. apply (volu_empty_equa sigma).
    apply in_map_iff in Hin. destruct Hin as [[k' v'] [Hk Hin]]. cbn [fst] in Hk; subst k'.
    apply filter_In in Hin. destruct Hin as [Hin He]. cbn [snd] in He.
    rewrite (In_lookup _ _ _ Hn Hin) in Hl. injection Hl as <-. exact He.
  - intros k [].
Qed.
End Sound2.

(* renumbering keeps every denotation (sense-preserving map) *)
Lemma renumber_vmodel sigma sigma' rho ren volus volus' :
  (forall s s', lookup s ren = Some s' -> sigma' s' = sigma s) ->
  renumber_surfaces volus ren = Ok volus' ->
  vmodel sigma rho volus -> vmodel sigma' rho volus' /\ map fst volus' = map fst volus /\
  (forall k v', lookup k volus' = Some v' ->
     exists v, lookup k volus = Some v /\ fictive v' = fictive v /\ vorigin v' = vorigin v).
Proof.
  intros Hs H Hm.
  assert (Ha : renumber_all volus ren = Ok volus').
  { unfold renumber_surfaces in H. destruct volus; [discriminate|exact H]. }
  split; [|split].
  - intros k v' Hl. pose proof (renumber_all_lookup ren _ _ Ha k) as Hk.
    destruct (lookup k volus) as [v|] eqn:E; [|congruence].
    destruct Hk as [v2 [Hl2 Hv]]. rewrite Hl in Hl2. injection Hl2 as <-.
    destruct (renumber_volu_equa sigma sigma' ren Hs _ _ Hv) as [He [Ho _]].
    rewrite (Hm _ _ E). unfold vval. rewrite Ho, He. reflexivity.
  - clear -Ha. revert volus' Ha. induction volus as [|[k v] r IH]; intros volus' Ha; cbn [renumber_all] in Ha.
    + injection Ha as <-. reflexivity.
    + destruct (renumber_volu ren v); [|discriminate]. destruct (renumber_all r ren) as [r'|] eqn:E; [|discriminate].
      injection Ha as <-. cbn [map fst]. f_equal. apply IH. reflexivity.
  - intros k v' Hl. pose proof (renumber_all_lookup ren _ _ Ha k) as Hk.
    destruct (lookup k volus) as [v|] eqn:E; [|congruence].
    destruct Hk as [v2 [Hl2 Hv]]. rewrite Hl in Hl2. injection Hl2 as <-. exists v. split; [reflexivity|].
    unfold renumber_volu in Hv. destruct (renumber_ids ren (pluses v)); [|discriminate].
    destruct (renumber_ids ren (minuses v)); [|discriminate]. injection Hv as <-. cbn [fictive vorigin]. auto.
Qed.

(* ---------- one run of the tail of convertMCNPGeometry, at R ---------- *)
(* The written tables (surfaces s', volumes v3, SURF lines w): every denotation
   rho of the input volume table, under the senses induced by the descriptors, is
   a denotation of the written table; written volumes keep FICTIVE flag and
   provenance; a volume of the input that is not written is empty under rho, or
   FICTIVE; every surface the writer needs exists. *)
Theorem finish_sound (sense : desc R -> bool) skip surfs volus u0 u1 s' v3 w rho :
  NoDup (map fst surfs) -> NoDup (map fst volus) ->
  (sense_of sense surfs u0 = true -> sense_of sense surfs u1 = true) ->
  finish RS skip surfs volus u0 u1 = Ok (s', v3, w) ->
  vmodel (sense_of sense surfs) rho volus ->
  vmodel (sense_of sense s') rho v3 /\
  (forall k v, lookup k v3 = Some v ->
     exists v0, lookup k volus = Some v0 /\ fictive v = fictive v0 /\ vorigin v = vorigin v0) /\
  (forall k v0, lookup k volus = Some v0 -> lookup k v3 = None -> rho k = false \/ fictive v0 = true) /\
  (forall s, In s w -> lookup s s' <> None).
Proof.
  intros Hns Hnv Hh H Hm. unfold finish in H.
  destruct (dedup_stage RS skip surfs volus u0 u1) as [[[s1 v1] [a b]]|e] eqn:Ed; [|discriminate].
  destruct (remove_empty_volumes v1 a b) as [v2|e] eqn:Ee; [|discriminate].
  destruct (written_surfaces s1 (remove_unused_volumes v2)) as [w1|e] eqn:Ew; [|discriminate].
  injection H as <- <- <-.
  (* stage 1: de-duplication *)
  assert (H1 : vmodel (sense_of sense s1) rho v1 /\ NoDup (map fst v1) /\
               (forall k v', lookup k v1 = Some v' ->
                  exists v, lookup k volus = Some v /\ fictive v' = fictive v /\ vorigin v' = vorigin v) /\
               (forall k, lookup k volus <> None -> lookup k v1 <> None)).
  { unfold dedup_stage in Ed. destruct skip.
    - injection Ed as <- <- _ _. split; [exact Hm|]. split; [exact Hnv|]. split; [eauto|auto].
    - destruct (remove_duplicate_surfaces RS surfs) as [new ren] eqn:Er.
      destruct (renumber_surfaces volus ren) as [vv|e] eqn:Ev; [|discriminate].
      destruct (lookup u0 ren); [|discriminate]. destruct (lookup u1 ren); [|discriminate].
      injection Ed as <- <- _ _.
      assert (Hs : forall s s', lookup s ren = Some s' -> sense_of sense new s' = sense_of sense surfs s).
      { intros s t Hl. apply lookup_In in Hl.
        assert (Hin : In (s, t) (snd (remove_duplicate_surfaces RS surfs))) by (rewrite Er; exact Hl).
        destruct (dedup_merges_equal surfs s t Hin) as [d [Ha [_ Hc]]]. rewrite Er in Hc. cbn [fst] in Hc.
        assert (Hnn : NoDup (map fst new)).
        { pose proof (rds_run RS surfs) as E. rewrite Er in E.
          replace new with (fst (dedup_run RS (sort_items surfs) [])) by (rewrite <- E; reflexivity).
          apply run_new_nodup. apply (Permutation_NoDup (Permutation_map fst (sort_items_perm surfs))). exact Hns. }
        unfold sense_of. rewrite (In_lookup _ _ _ Hns Ha), (In_lookup _ _ _ Hnn Hc). reflexivity. }
      destruct (renumber_vmodel _ _ rho ren volus vv Hs Ev Hm) as [Hm1 [Hk1 Hf1]].
      split; [exact Hm1|]. split; [rewrite Hk1; exact Hnv|]. split; [exact Hf1|].
      intros k Hk. apply lookup_keys. rewrite Hk1. apply lookup_keys. exact Hk. }
  destruct H1 as [Hm1 [Hn1 [Hf1 Hdom1]]].
  destruct (dedup_stage_helpers sense skip surfs volus u0 u1 s1 v1 a b Hns Ed) as [Ha Hb].
  assert (Hh1 : sense_of sense s1 a = true -> sense_of sense s1 b = true) by (rewrite Ha, Hb; exact Hh).
  (* stage 2: remove_empty_volumes *)
  destruct (remove_empty_sound (sense_of sense s1) rho a b Hh1 v1 v2 Ee Hn1 Hm1) as [Hn2 [Hm2 [T1 T2]]].
  (* stage 3: remove_unused_volumes (a filter) *)
  split; [|split; [|split]].
  - intros k v Hl. unfold remove_unused_volumes in Hl.
    destruct (lookup_filter_keys _ _ _ _ Hn2 Hl) as [Hl2 _]. exact (Hm2 _ _ Hl2).
  - intros k v Hl. unfold remove_unused_volumes in Hl.
    destruct (lookup_filter_keys _ _ _ _ Hn2 Hl) as [Hl2 _].
    destruct (T1 _ _ Hl2) as [vb [Hb1 [Hfb Hob]]]. destruct (Hf1 _ _ Hb1) as [v0 [H0 [Hf0 Ho0]]].
    exists v0. split; [exact H0|]. split; congruence.
  - intros k v0 H0 Hl.
    destruct (lookup k v2) as [vv|] eqn:E2.
    + (* dropped by the filter: FICTIVE and unused *)
      right. destruct (T1 _ _ E2) as [vb [Hb1 [Hfb Hob]]]. destruct (Hf1 _ _ Hb1) as [v0' [H0' [Hf0 _]]].
      rewrite H0 in H0'. injection H0' as <-. rewrite <- Hf0, <- Hfb.
      unfold remove_unused_volumes in Hl.
      destruct (fictive vv && negb (memZ k (flat_map (fun kv => match ops (snd kv) with
                  | Some (_, args) => args | None => [] end) v2))) eqn:Ef.
      * apply andb_true_iff in Ef. tauto.
      * exfalso. assert (Hin : In (k, vv) (filter (fun kv => negb (fictive (snd kv) && negb (memZ (fst kv)
                  (flat_map (fun kv0 => match ops (snd kv0) with Some (_, args) => args | None => [] end) v2)))) v2)).
        { apply filter_In. split; [apply lookup_In; exact E2|]. cbn [fst snd]. rewrite Ef. reflexivity. }
        assert (lookup k (filter (fun kv => negb (fictive (snd kv) && negb (memZ (fst kv)
                  (flat_map (fun kv0 => match ops (snd kv0) with Some (_, args) => args | None => [] end) v2)))) v2) <> None).
        { apply lookup_keys. apply in_map_iff. exists (k, vv). split; [reflexivity|exact Hin]. }
        congruence.
    + left. apply T2; [apply Hdom1; congruence|exact E2].
  - intros s Hs. unfold written_surfaces in Ew.
    destruct (used_surfaces (remove_unused_volumes v2)) as [|x l] eqn:Eu; [discriminate|].
    destruct (forallb _ (x :: l)) eqn:Ef; [|discriminate]. injection Ew as <-.
    rewrite forallb_forall in Ef. specialize (Ef _ Hs). destruct (lookup s s1); [discriminate|discriminate].
Qed.

(* ---------- --skip-deduplication on vs off, over the written tables ---------- *)
(* who owns a point: a written, non-FICTIVE volume whose denotation is true *)
Definition owner (rho : Z -> bool) (vols : list (Z * volu)) (k : Z) (origin : list (Z * Z)) : Prop :=
  exists v, lookup k vols = Some v /\ fictive v = false /\ vorigin v = origin /\ rho k = true.

Theorem written_same_dedup (sense : desc R -> bool) surfs volus u0 u1 sa va wa sb vb wb rho :
  NoDup (map fst surfs) -> NoDup (map fst volus) ->
  (sense_of sense surfs u0 = true -> sense_of sense surfs u1 = true) ->
  vmodel (sense_of sense surfs) rho volus ->
  finish RS false surfs volus u0 u1 = Ok (sa, va, wa) ->
  finish RS true surfs volus u0 u1 = Ok (sb, vb, wb) ->
  vmodel (sense_of sense sa) rho va /\ vmodel (sense_of sense sb) rho vb /\
  forall k origin, owner rho va k origin <-> owner rho vb k origin.
Proof.
  intros Hns Hnv Hh Hm Ha Hb.
  destruct (finish_sound sense false surfs volus u0 u1 sa va wa rho Hns Hnv Hh Ha Hm) as [Ma [Fa [La _]]].
  destruct (finish_sound sense true surfs volus u0 u1 sb vb wb rho Hns Hnv Hh Hb Hm) as [Mb [Fb [Lb _]]].
  split; [exact Ma|]. split; [exact Mb|].
  assert (Hone : forall v1 v2,
            (forall k v, lookup k v1 = Some v ->
               exists v0, lookup k volus = Some v0 /\ fictive v = fictive v0 /\ vorigin v = vorigin v0) ->
            (forall k v, lookup k v2 = Some v ->
               exists v0, lookup k volus = Some v0 /\ fictive v = fictive v0 /\ vorigin v = vorigin v0) ->
            (forall k v0, lookup k volus = Some v0 -> lookup k v2 = None -> rho k = false \/ fictive v0 = true) ->
            forall k origin, owner rho v1 k origin -> owner rho v2 k origin).
  { intros v1 v2 F1 F2 L2 k origin [v [Hl [Hf [Ho Hr]]]].
    destruct (F1 _ _ Hl) as [v0 [H0 [Hf0 Ho0]]].
    destruct (lookup k v2) as [v'|] eqn:E2.
    - destruct (F2 _ _ E2) as [v0' [H0' [Hf' Ho']]]. rewrite H0 in H0'. injection H0' as <-.
      unfold owner. rewrite E2. exists v'. split; [reflexivity|]. split; [congruence|]. split; [congruence|exact Hr].
    - destruct (L2 _ _ H0 E2) as [Hfalse|Hfic]; [congruence|congruence]. }
  intros k origin. split.
  - apply (Hone va vb Fa Fb Lb).
  - apply (Hone vb va Fb Fa La).
Qed.
