(* C13 — what the objects mean (DESIGN §3), written without looking at the
   converter.
   * A point off all surfaces is, for the Boolean layer, its sense assignment
     sigma : surface id -> bool (true = positive side).
   * A cell geometry is a Boolean expression over signed surfaces and references
     to other cells; rho : cell id -> bool gives the meaning of the references.
     rho is a MODEL of a cell table when rho c is the value of cell c's own
     geometry for every cell of the table (fixed point).  On an acyclic table the
     model is unique on the cells of the table (Proofs: model_unique) and is
     computed by [ceval].
   * A TRIPOLI-4 volume: EQUA PLUS/MINUS lists, then UNION / INTE with other
     volumes (Appendix B). *)
From Coq Require Import List ZArith Bool.
From T4V Require Import C13.Model.
Import ListNotations.
Open Scope Z_scope.

Definition lit (sigma : Z -> bool) (s : Z) : bool :=
  if Z.leb 0 s then sigma s else negb (sigma (- s)).

Fixpoint geval (sigma rho : Z -> bool) (g : geom) : bool :=
  match g with
  | GSurf s => lit sigma s
  | GRef c => rho c
  | GNode true args => forallb (geval sigma rho) args
  | GNode false args => existsb (geval sigma rho) args
  end.

Definition is_model (sigma rho : Z -> bool) (dic : list (Z * mcell)) : Prop :=
  forall k c, lookup k dic = Some c -> rho k = geval sigma rho (cgeom c).

(* value of every cell after unfolding references n times *)
Fixpoint ceval (n : nat) (sigma : Z -> bool) (dic : list (Z * mcell)) (k : Z) : bool :=
  match n with
  | O => false
  | S m => match lookup k dic with
           | Some c => geval sigma (ceval m sigma dic) (cgeom c)
           | None => false
           end
  end.

(* acyclic table: references resolve and go down a rank *)
Definition acyclic (rank : Z -> nat) (dic : list (Z * mcell)) : Prop :=
  forall k c, lookup k dic = Some c ->
    forall r, In r (refs (cgeom c)) -> (rank r < rank k)%nat /\ lookup r dic <> None.

(* denotation of cell k of an acyclic table *)
Definition cden (rank : Z -> nat) (sigma : Z -> bool) (dic : list (Z * mcell)) (k : Z) : bool :=
  ceval (S (rank k)) sigma dic k.

(* TRIPOLI-4 volumes; fuel bounds the nesting of operators *)
Definition equa (sigma : Z -> bool) (v : volu) : bool :=
  forallb sigma (pluses v) && forallb (fun s => negb (sigma s)) (minuses v).

Fixpoint opt_all (l : list (option bool)) : option (list bool) :=
  match l with
  | [] => Some []
  | None :: _ => None
  | Some b :: r => match opt_all r with Some r' => Some (b :: r') | None => None end
  end.

Fixpoint vden (fuel : nat) (sigma : Z -> bool) (dic : list (Z * volu)) (k : Z) : option bool :=
  match fuel with
  | O => None
  | S f =>
      match lookup k dic with
      | None => None
      | Some v =>
          match ops v with
          | None => Some (equa sigma v)
          | Some (OUnion, args) =>
              match opt_all (map (vden f sigma dic) args) with
              | Some bs => Some (equa sigma v || existsb (fun b => b) bs)
              | None => None
              end
          | Some (OInte, args) =>
              match opt_all (map (vden f sigma dic) args) with
              | Some bs => Some (equa sigma v && forallb (fun b => b) bs)
              | None => None
              end
          end
      end
  end.
