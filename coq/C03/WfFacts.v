(* C03 — the entries the body functions emit are well formed (shape, non-zero
   normal or axis): small lemmas used next to the facet proofs. *)
From Coq Require Import List ZArith Bool Reals Lra Lia.
From T4V Require Import Base.Scalar C03.Vec C03.Model C03.Convert C03.Spec C03.SpecT4 C03.VecFacts.
Import ListNotations.
Open Scope R_scope.

Lemma wf_plane (n : pt) (d : R) (s : Z) : n <> (0, 0, 0) -> entry_wf (TP, pl n ++ [d], s).
Proof. destruct n as [[a b] c]. exact (fun H => H). Qed.

Lemma wf_cyl (v h : pt) (r : R) (s : Z) : h <> (0, 0, 0) -> entry_wf (TC, pl v ++ [r] ++ pl h, s).
Proof. destruct v as [[? ?] ?], h as [[a b] c]. exact (fun H => H). Qed.

Lemma wf_cone (v h : pt) (t : R) (s : Z) : h <> (0, 0, 0) -> entry_wf (TK, pl v ++ [t] ++ pl h, s).
Proof. destruct v as [[? ?] ?], h as [[a b] c]. exact (fun H => H). Qed.

Lemma wf_gq (prm : list R) (t r0 r1 r2 : pt) (s : Z) :
  entry_wf (TGQ, transformation_quad RS prm t r0 r1 r2, s).
Proof.
  unfold transformation_quad.
  destruct r0 as [[? ?] ?], r1 as [[? ?] ?], r2 as [[? ?] ?], t as [[? ?] ?].
  match goal with |- context [match ?m with _ => _ end] => destruct m as [[[[[[? ?] ?] ?] [[[? ?] ?] ?]] [[[? ?] ?] ?]] [[[? ?] ?] ?]] end.
  exact I.
Qed.

Lemma wf_end_planes (v h : pt) : h <> (0, 0, 0) -> Forall entry_wf (end_planes RS v h).
Proof.
  intros H. unfold end_planes. rewrite !plane_np_eq.
  repeat constructor; now apply wf_plane.
Qed.

Lemma nz_of_norm2 (a : pt) : 0 < norm2 a -> a <> (0, 0, 0).
Proof. intros H E. rewrite E in H. unfold norm2, dot in H. lra. Qed.

Lemma nz_of_dot (a b : pt) : dot a b <> 0 -> a <> (0, 0, 0).
Proof. intros H E. apply H. rewrite E. destruct b as [[? ?] ?]. unfold dot. ring. Qed.

Lemma vmul_nz (k : R) (a : pt) : k <> 0 -> a <> (0, 0, 0) -> vmul k a <> (0, 0, 0).
Proof.
  intros Hk Ha E. apply Ha. destruct a as [[x y] z]. unfold vmul in E. injection E as E1 E2 E3.
  apply pair3; apply (Rmult_eq_reg_l k); try exact Hk; rewrite Rmult_0_r; assumption.
Qed.

Lemma cross_nz (a b c : pt) : det a b c <> 0 ->
  cross b c <> (0, 0, 0) /\ cross c a <> (0, 0, 0) /\ cross a b <> (0, 0, 0).
Proof.
  intros HD. repeat split.
  - apply (nz_of_dot _ a). rewrite dot_comm. exact HD.
  - apply (nz_of_dot _ b). rewrite dot_comm. fold (det b c a). now rewrite <- det_cyc.
  - apply (nz_of_dot _ c). rewrite dot_comm. fold (det c a b). now rewrite <- 2 det_cyc.
Qed.

Ltac wf_planes :=
  repeat (apply Forall_cons; [apply wf_plane; try assumption|]); try apply Forall_nil.
