(* C03 <- C13.  After the conversion the surfaces go through
   remove_duplicate_surfaces (C13's model of Duplicates.py): a written macrobody
   facet that is merged with an equal surface is kept, under the survivor's
   number, with the SAME type and parameters -- so with the same locus and the
   same PLUS side.  C13's files are imported read-only. *)
From Coq Require Import List ZArith NArith Bool Reals Lra.
From T4V Require Import Base.Scalar C03.Vec C03.Model C03.Convert C03.Spec C03.SpecT4.
From T4V Require C13.Model C13.ProofsDedup.
Import ListNotations.
Open Scope R_scope.

Module M13 := T4V.C13.Model.

(* ESurfaceTypeT4 member index (PLANEX = 0 ... QUAD = 13), as in C13's desc *)
Definition t4_index (t : t4type) : N :=
  match t with
  | PLANEX => 0 | PLANEY => 1 | PLANEZ => 2 | PLANE => 3 | SPHERE => 4
  | CYLX => 5 | CYLY => 6 | CYLZ => 7 | CYL => 8
  | CONEX => 9 | CONEY => 10 | CONEZ => 11 | CONE => 12 | QUAD => 13
  end%N.

(* the SurfaceT4 of a written macrobody facet (no TRANSFORM block) *)
Definition desc_of (t : t4type) (prm : list R) : M13.desc R :=
  M13.mkDesc (t4_index t) prm None.

Lemma keys_unique {A} (l : list (Z * A)) k a b :
  NoDup (map fst l) -> In (k, a) l -> In (k, b) l -> a = b.
Proof.
  induction l as [|[k0 a0] l IH]; cbn; intros Hn Ha Hb; [contradiction|].
  inversion_clear Hn as [|? ? Hnotin Hn'].
  destruct Ha as [Ea | Ha], Hb as [Eb | Hb].
  - congruence.
  - exfalso. apply Hnotin. injection Ea as -> _. change k with (fst (k, b)). now apply in_map.
  - exfalso. apply Hnotin. injection Eb as -> _. change k with (fst (k, a)). now apply in_map.
  - now apply IH.
Qed.

(* a facet written as surface k with type t and parameters prm: if the
   de-duplication renumbers k to k', surface k' is kept with the very same type
   and parameters *)
Theorem facet_survives_dedup (surfs : list (Z * M13.desc R)) (k k' : Z) (t : t4type) (prm : list R) :
  NoDup (map fst surfs) ->
  In (k, desc_of t prm) surfs ->
  In (k, k') (snd (M13.remove_duplicate_surfaces RS surfs)) ->
  In (k', desc_of t prm) (fst (M13.remove_duplicate_surfaces RS surfs)).
Proof.
  intros Hn Hk Hr.
  destruct (T4V.C13.ProofsDedup.dedup_merges_equal surfs k k' Hr) as (d & H1 & _ & H3).
  now rewrite (keys_unique surfs k _ _ Hn Hk H1).
Qed.

(* hence it is still the facet: same value at every point, same side *)
Theorem facet_locus_survives_dedup (surfs : list (Z * M13.desc R)) (k k' : Z)
        (t : t4type) (prm : list R) (side : Z) (g : pt -> pt) (f : pt -> R) :
  NoDup (map fst surfs) ->
  In (k, desc_of t prm) surfs ->
  In (k, k') (snd (M13.remove_duplicate_surfaces RS surfs)) ->
  same_t4_facet g (t, prm, side) f ->
  exists t' prm', In (k', desc_of t' prm') (fst (M13.remove_duplicate_surfaces RS surfs)) /\
                  same_t4_facet g (t', prm', side) f.
Proof.
  intros Hn Hk Hr Hf. exists t, prm. split; [|exact Hf]. now apply (facet_survives_dedup surfs k k').
Qed.
