(* C03 — ARB, tetrahedron: the intersection of the four facet half-spaces of
   the Spec (outward = away from the vertex centroid) is the open convex hull of
   the four vertices. *)
From Coq Require Import List ZArith Bool Reals Lra Lia.
From T4V Require Import Base.Scalar C03.Vec C03.Model C03.Spec C03.VecFacts.
Import ListNotations.
Open Scope R_scope.

(* facet descriptors 123 124 134 234 as vertex numbers from 0 *)
Definition tetra_facets : list (list nat) := [[0; 1; 2]; [0; 1; 3]; [0; 2; 3]; [1; 2; 3]]%nat.

Definition hull4 (p1 p2 p3 p4 : pt) (p : pt) : Prop :=
  exists l1 l2 l3 l4 : R, 0 < l1 /\ 0 < l2 /\ 0 < l3 /\ 0 < l4 /\ l1 + l2 + l3 + l4 = 1 /\
    p = vadd (vmul l1 p1) (vadd (vmul l2 p2) (vadd (vmul l3 p3) (vmul l4 p4))).

Theorem tetra_hull (p1 p2 p3 p4 p : pt) :
  det (vsub p2 p1) (vsub p3 p1) (vsub p4 p1) <> 0 ->
  (inside_of (arb_facets [p1; p2; p3; p4] tetra_facets) p <-> hull4 p1 p2 p3 p4 p).
Proof.
  destruct p1 as [[a1 a2] a3], p2 as [[b1 b2] b3], p3 as [[c1 c2] c3], p4 as [[d1 d2] d3],
           p as [[x y] z].
  intros HD.
  set (D := det (vsub (b1, b2, b3) (a1, a2, a3)) (vsub (c1, c2, c3) (a1, a2, a3))
                (vsub (d1, d2, d3) (a1, a2, a3))) in *.
  (* D times the barycentric coordinates *)
  set (N4 := det (vsub (b1, b2, b3) (a1, a2, a3)) (vsub (c1, c2, c3) (a1, a2, a3))
                 (vsub (x, y, z) (a1, a2, a3))).
  set (N3 := det (vsub (b1, b2, b3) (a1, a2, a3)) (vsub (x, y, z) (a1, a2, a3))
                 (vsub (d1, d2, d3) (a1, a2, a3))).
  set (N2 := det (vsub (x, y, z) (a1, a2, a3)) (vsub (c1, c2, c3) (a1, a2, a3))
                 (vsub (d1, d2, d3) (a1, a2, a3))).
  set (N1 := D - N2 - N3 - N4).
  unfold inside_of, arb_facets, tetra_facets. cbn [map arb_facet_of nth].
  unfold centroid_of, vsum. cbn [List.length fold_left INR vadd vmul].
  set (cen := (1 / (1 + 1 + 1 + 1) * (0 + a1 + b1 + c1 + d1),
               1 / (1 + 1 + 1 + 1) * (0 + a2 + b2 + c2 + d2),
               1 / (1 + 1 + 1 + 1) * (0 + a3 + b3 + c3 + d3))).
  assert (F1 : arb_facet (a1, a2, a3) (b1, b2, b3) (c1, c2, c3)
                 cen
                 (x, y, z) = - (D * N4) / 4).
  { unfold arb_facet, cen, D, N4, det, dot, cross, vsub, vadd, vmul. field. }
  assert (F2 : arb_facet (a1, a2, a3) (b1, b2, b3) (d1, d2, d3)
                 cen
                 (x, y, z) = - (D * N3) / 4).
  { unfold arb_facet, cen, D, N3, det, dot, cross, vsub, vadd, vmul. field. }
  assert (F3 : arb_facet (a1, a2, a3) (c1, c2, c3) (d1, d2, d3)
                 cen
                 (x, y, z) = - (D * N2) / 4).
  { unfold arb_facet, cen, D, N2, det, dot, cross, vsub, vadd, vmul. field. }
  assert (F4 : arb_facet (b1, b2, b3) (c1, c2, c3) (d1, d2, d3)
                 cen
                 (x, y, z) = - (D * N1) / 4).
  { unfold arb_facet, cen, N1, D, N2, N3, N4, det, dot, cross, vsub, vadd, vmul. field. }
  (* Cramer *)
  assert (Cx : D * x = N1 * a1 + N2 * b1 + N3 * c1 + N4 * d1).
  { unfold N1, D, N2, N3, N4, det, dot, cross, vsub. ring. }
  assert (Cy : D * y = N1 * a2 + N2 * b2 + N3 * c2 + N4 * d2).
  { unfold N1, D, N2, N3, N4, det, dot, cross, vsub. ring. }
  assert (Cz : D * z = N1 * a3 + N2 * b3 + N3 * c3 + N4 * d3).
  { unfold N1, D, N2, N3, N4, det, dot, cross, vsub. ring. }
  assert (Pos : forall n, D * n > 0 -> 0 < n / D).
  { intros n H. replace (n / D) with (D * n / (D * D)) by (field; exact HD).
    apply Rdiv_lt_0_compat; [lra|]. nra. }
  split.
  - intros H. inversion_clear H as [|? ? G1 H']. inversion_clear H' as [|? ? G2 H''].
    inversion_clear H'' as [|? ? G3 H3]. inversion_clear H3 as [|? ? G4 _].
    rewrite F1 in G1. rewrite F2 in G2. rewrite F3 in G3. rewrite F4 in G4.
    exists (N1 / D), (N2 / D), (N3 / D), (N4 / D).
    split; [apply Pos; lra|]. split; [apply Pos; lra|]. split; [apply Pos; lra|].
    split; [apply Pos; lra|]. split; [unfold N1; field; exact HD|].
    unfold vadd, vmul. apply pair3; apply (Rmult_eq_reg_l D); try exact HD.
    + rewrite Cx. field. exact HD.
    + rewrite Cy. field. exact HD.
    + rewrite Cz. field. exact HD.
  - intros (l1 & l2 & l3 & l4 & H1 & H2 & H3 & H4 & Hs & Hp).
    unfold vadd, vmul in Hp. injection Hp as Hx Hy Hz.
    assert (l1 = 1 - l2 - l3 - l4) by lra. subst l1.
    assert (E4 : N4 = l4 * D).
    { unfold N4, D, det, dot, cross, vsub. rewrite Hx, Hy, Hz. ring. }
    assert (E3 : N3 = l3 * D).
    { unfold N3, D, det, dot, cross, vsub. rewrite Hx, Hy, Hz. ring. }
    assert (E2 : N2 = l2 * D).
    { unfold N2, D, det, dot, cross, vsub. rewrite Hx, Hy, Hz. ring. }
    assert (E1 : N1 = (1 - l2 - l3 - l4) * D) by (unfold N1; rewrite E2, E3, E4; ring).
    assert (DD : 0 < D * D) by nra.
    repeat (apply Forall_cons); try apply Forall_nil;
      rewrite ?F1, ?F2, ?F3, ?F4, ?E1, ?E2, ?E3, ?E4; nra.
Qed.
