(* C03 — every entry of a body, converted (and possibly moved by a TR / TRCL /
   FILL transformation), is written as a TRIPOLI-4 surface whose PLUS side is
   the positive side of the entry's MCNP equation read in the auxiliary frame. *)
From Coq Require Import List ZArith Bool Reals Lra Lia.
From T4V Require Import Base.Scalar C03.Vec C03.Model C03.Convert C03.Spec C03.SpecT4
  C03.VecFacts C03.ProofsPlanes C03.ProofsQuad.
Import ListNotations.
Open Scope R_scope.

(* ---- the rotation part ---- *)
Definition Bmul (tr : rtransf) (w : pt) : pt :=
  let '(_, r0, r1, r2) := tr in (dot r0 w, dot r1 w, dot r2 w).

Lemma to_aux_Bmul tr p : to_aux tr p = Bmul tr (vsub p (fst (fst (fst tr)))).
Proof. destruct tr as [[[o r0] r1] r2]. reflexivity. Qed.

Lemma trv_adjoint (tr : rtransf) (d w : pt) :
  dot (tr_vector RS tr d) w = dot d (Bmul tr w).
Proof.
  destruct tr as [[[o [[b1 b2] b3]] [[b4 b5] b6]] [[b7 b8] b9]], d as [[d1 d2] d3], w as [[w1 w2] w3].
  unfold tr_vector, Bmul, dot. rs. ring.
Qed.

Lemma B_Bt (tr : rtransf) (q : pt) : orthogonal tr -> Bmul tr (tr_vector RS tr q) = q.
Proof.
  destruct tr as [[[o [[b1 b2] b3]] [[b4 b5] b6]] [[b7 b8] b9]], q as [[q1 q2] q3].
  intros (H1 & H2 & H3 & H4 & H5 & H6 & _). unfold tr_vector, Bmul, dot. rs. apply pair3.
  - replace (b1 * (b1 * q1 + b4 * q2 + b7 * q3) + b2 * (b2 * q1 + b5 * q2 + b8 * q3) +
             b3 * (b3 * q1 + b6 * q2 + b9 * q3))
      with ((b1 * b1 + b2 * b2 + b3 * b3) * q1 + (b1 * b4 + b2 * b5 + b3 * b6) * q2 +
            (b1 * b7 + b2 * b8 + b3 * b9) * q3) by ring.
    rewrite H1, H4, H5. ring.
  - replace (b4 * (b1 * q1 + b4 * q2 + b7 * q3) + b5 * (b2 * q1 + b5 * q2 + b8 * q3) +
             b6 * (b3 * q1 + b6 * q2 + b9 * q3))
      with ((b1 * b4 + b2 * b5 + b3 * b6) * q1 + (b4 * b4 + b5 * b5 + b6 * b6) * q2 +
            (b4 * b7 + b5 * b8 + b6 * b9) * q3) by ring.
    rewrite H2, H4, H6. ring.
  - replace (b7 * (b1 * q1 + b4 * q2 + b7 * q3) + b8 * (b2 * q1 + b5 * q2 + b8 * q3) +
             b9 * (b3 * q1 + b6 * q2 + b9 * q3))
      with ((b1 * b7 + b2 * b8 + b3 * b9) * q1 + (b4 * b7 + b5 * b8 + b6 * b9) * q2 +
            (b7 * b7 + b8 * b8 + b9 * b9) * q3) by ring.
    rewrite H3, H5, H6. ring.
Qed.

Lemma Bmul_norm2 (tr : rtransf) (w : pt) : orthogonal tr -> norm2 (Bmul tr w) = norm2 w.
Proof.
  destruct tr as [[[o [[b1 b2] b3]] [[b4 b5] b6]] [[b7 b8] b9]], w as [[w1 w2] w3].
  intros (_ & _ & _ & _ & _ & _ & C1 & C2 & C3 & C4 & C5 & C6). unfold Bmul, norm2, dot.
  replace ((b1 * w1 + b2 * w2 + b3 * w3) * (b1 * w1 + b2 * w2 + b3 * w3) +
           (b4 * w1 + b5 * w2 + b6 * w3) * (b4 * w1 + b5 * w2 + b6 * w3) +
           (b7 * w1 + b8 * w2 + b9 * w3) * (b7 * w1 + b8 * w2 + b9 * w3))
    with ((b1 * b1 + b4 * b4 + b7 * b7) * (w1 * w1) + (b2 * b2 + b5 * b5 + b8 * b8) * (w2 * w2) +
          (b3 * b3 + b6 * b6 + b9 * b9) * (w3 * w3) +
          2 * (b1 * b2 + b4 * b5 + b7 * b8) * (w1 * w2) +
          2 * (b1 * b3 + b4 * b6 + b7 * b9) * (w1 * w3) +
          2 * (b2 * b3 + b5 * b6 + b8 * b9) * (w2 * w3)) by ring.
  rewrite C1, C2, C3, C4, C5, C6. ring.
Qed.

Lemma trv_norm2 (tr : rtransf) (d : pt) : orthogonal tr -> norm2 (tr_vector RS tr d) = norm2 d.
Proof.
  intros H. unfold norm2 at 1. rewrite trv_adjoint, B_Bt by assumption. reflexivity.
Qed.

Lemma Bmul_vsub tr u v : Bmul tr (vsub u v) = vsub (Bmul tr u) (Bmul tr v).
Proof.
  destruct tr as [[[o r0] r1] r2]. unfold Bmul. rewrite !dot_vsub_r.
  destruct u as [[? ?] ?], v as [[? ?] ?]. reflexivity.
Qed.

Lemma trp_vsub (tr : rtransf) (p q : pt) :
  vsub p (tr_point RS tr q) = vsub (vsub p (fst (fst (fst tr)))) (tr_vector RS tr q).
Proof.
  destruct tr as [[[[[o1 o2] o3] [[b1 b2] b3]] [[b4 b5] b6]] [[b7 b8] b9]], q as [[q1 q2] q3],
           p as [[p1 p2] p3].
  unfold tr_point, tr_vector, vsub. rs. cbn [fst]. apply pair3; ring.
Qed.

(* the moved frame (point P, direction U) of a surface, and the facts used *)
Definition mvp (tr : option rtransf) (q : pt) : pt :=
  match tr with Some t => tr_point RS t q | None => q end.
Definition mvv (tr : option rtransf) (d : pt) : pt :=
  match tr with Some t => tr_vector RS t d | None => d end.

Lemma mv_dot tr d q p : tr_ok tr ->
  dot (mvv tr d) (vsub p (mvp tr q)) = dot d (vsub (frame_of tr p) q).
Proof.
  destruct tr as [t|]; [|reflexivity]. cbn [mvv mvp frame_of tr_ok]. intros H.
  rewrite trp_vsub, trv_adjoint, Bmul_vsub, B_Bt, to_aux_Bmul by assumption. reflexivity.
Qed.

Lemma mv_norm2 tr q p : tr_ok tr ->
  norm2 (vsub p (mvp tr q)) = norm2 (vsub (frame_of tr p) q).
Proof.
  destruct tr as [t|]; [|reflexivity]. cbn [mvv mvp frame_of tr_ok]. intros H.
  rewrite trp_vsub, to_aux_Bmul, <- (Bmul_norm2 t _ H), Bmul_vsub, B_Bt by assumption.
  reflexivity.
Qed.

Lemma mvv_norm2 tr d : tr_ok tr -> norm2 (mvv tr d) = norm2 d.
Proof. destruct tr; [apply trv_norm2 | reflexivity]. Qed.

Lemma mvv_nonzero tr d : tr_ok tr -> d <> (0, 0, 0) -> mvv tr d <> (0, 0, 0).
Proof.
  intros H Hd E. pose proof (mvv_norm2 tr d H) as N. rewrite E in N.
  pose proof (norm2_pos d Hd). unfold norm2 at 1, dot in N. lra.
Qed.

(* ---- conversion_surface_params on a frame ---- *)
Ltac reqb_case x E :=
  destruct (Reqb x 0) eqn:E; [apply Reqb_true in E | apply Reqb_false in E].
Ltac use_eqs Ex Ey Ez := try rewrite Ex; try rewrite Ey; try rewrite Ez.
Ltac rltb_cases :=
  repeat match goal with
  | |- context [Rltb 0 ?x] =>
      let L := fresh "L" in destruct (Rltb_case 0 x) as [[L ->]|[L ->]]
  end.

Lemma t4_plane (P U : pt) (compl : list R) :
  U <> (0, 0, 0) ->
  exists t prm c, 0 < c /\ to_t4 RS (mkMs TP (Some (P, U)) compl) = Ok [(t, prm, 1%Z)] /\
    forall p, t4_value t prm p = c * dot U (vsub p P).
Proof.
  destruct P as [[px py] pz], U as [[ux uy] uz]. intros HU.
  unfold to_t4. cbn [ms_ty ms_frame]. unfold is0. rs.
  reqb_case ux Ex; reqb_case uy Ey; reqb_case uz Ez; rltb_cases; cbn [andb];
    try (exfalso; apply HU; rewrite Ex, Ey, Ez; reflexivity).
  all: try (exists PLANEZ, [- - (ux * px + uy * py + uz * pz) / uz], (1 / uz);
            split; [apply Rdiv_lt_0_compat; lra|]; split; [reflexivity|];
            intros [[x y] z]; cbn [t4_value]; unfold dot, vsub; use_eqs Ex Ey Ez; field; lra).
  all: try (exists PLANEX, [- - (ux * px + uy * py + uz * pz) / ux], (1 / ux);
            split; [apply Rdiv_lt_0_compat; lra|]; split; [reflexivity|];
            intros [[x y] z]; cbn [t4_value]; unfold dot, vsub; use_eqs Ex Ey Ez; field; lra).
  all: try (exists PLANEY, [- - (ux * px + uy * py + uz * pz) / uy], (1 / uy);
            split; [apply Rdiv_lt_0_compat; lra|]; split; [reflexivity|];
            intros [[x y] z]; cbn [t4_value]; unfold dot, vsub; use_eqs Ex Ey Ez; field; lra).
  all: eexists PLANE, _, 1; split; [lra|]; split; [reflexivity|];
       intros [[x y] z]; cbn [t4_value]; unfold dot, vsub; ring.
Qed.

Definition cyl_poly (P U : pt) (r : R) (p : pt) : R :=
  let q := vsub p P in norm2 q * norm2 U - sqr (dot q U) - r * r * norm2 U.
Definition cone_poly (P U : pt) (t : R) (p : pt) : R :=
  let q := vsub p P in norm2 q * norm2 U - sqr (dot q U) - t * t * sqr (dot q U).

Lemma t4_cyl (P U : pt) (r : R) :
  U <> (0, 0, 0) ->
  exists t prm c, 0 < c /\ to_t4 RS (mkMs TC (Some (P, U)) [r]) = Ok [(t, prm, 1%Z)] /\
    forall p, t4_value t prm p = c * cyl_poly P U r p.
Proof.
  destruct P as [[px py] pz], U as [[ux uy] uz]. intros HU.
  pose proof (norm2_pos _ HU) as HN.
  unfold to_t4. cbn [ms_ty ms_frame ms_compl nth]. unfold is0. rs.
  reqb_case ux Ex; reqb_case uy Ey; reqb_case uz Ez; cbn [andb];
    try (exfalso; apply HU; rewrite Ex, Ey, Ez; reflexivity);
    unfold norm2, dot in HN.
  all: try (exists CYLZ, [px; py; r], (1 / (uz * uz));
            split; [apply Rdiv_lt_0_compat; nra|]; split; [reflexivity|];
            intros [[x y] z]; cbn [t4_value]; unfold cyl_poly, norm2, dot, vsub, sqr; use_eqs Ex Ey Ez; field; nra).
  all: try (exists CYLX, [py; pz; r], (1 / (ux * ux));
            split; [apply Rdiv_lt_0_compat; nra|]; split; [reflexivity|];
            intros [[x y] z]; cbn [t4_value]; unfold cyl_poly, norm2, dot, vsub, sqr; use_eqs Ex Ey Ez; field; nra).
  all: try (exists CYLY, [px; pz; r], (1 / (uy * uy));
            split; [apply Rdiv_lt_0_compat; nra|]; split; [reflexivity|];
            intros [[x y] z]; cbn [t4_value]; unfold cyl_poly, norm2, dot, vsub, sqr; use_eqs Ex Ey Ez; field; nra).
  all: exists CYL, [px; py; pz; r; ux; uy; uz], (1 / (ux * ux + uy * uy + uz * uz));
       split; [apply Rdiv_lt_0_compat; lra|]; split; [reflexivity|];
       intros [[x y] z]; cbn [t4_value]; unfold cyl_poly, perp2, norm2, dot, vsub, sqr; field; lra.
Qed.

Lemma tan_deg_atan (t : R) : tan (deg (IZR 180 * atan t / PI)) = t.
Proof.
  unfold deg. replace (IZR 180 * atan t / PI * PI / 180) with (atan t).
  - apply atan_right_inv.
  - field. apply PI_neq0.
Qed.

Lemma t4_cone (P U : pt) (t x0 : R) :
  U <> (0, 0, 0) ->
  exists ty prm c, 0 < c /\ to_t4 RS (mkMs TK (Some (P, U)) [x0; atan t]) = Ok [(ty, prm, 1%Z)] /\
    forall p, t4_value ty prm p = c * cone_poly P U t p.
Proof.
  destruct P as [[px py] pz], U as [[ux uy] uz]. intros HU.
  pose proof (norm2_pos _ HU) as HN.
  unfold to_t4. cbn [ms_ty ms_frame ms_compl nth]. unfold is0. rs.
  reqb_case ux Ex; reqb_case uy Ey; reqb_case uz Ez; cbn [andb];
    try (exfalso; apply HU; rewrite Ex, Ey, Ez; reflexivity);
    unfold norm2, dot in HN.
  all: try (exists CONEZ, [px; py; pz; IZR 180 * atan t / PI], (1 / (uz * uz));
            split; [apply Rdiv_lt_0_compat; nra|]; split; [reflexivity|];
            intros [[x y] z]; cbn [t4_value]; rewrite tan_deg_atan;
            unfold cone_poly, norm2, dot, vsub, sqr; use_eqs Ex Ey Ez; field; nra).
  all: try (exists CONEX, [px; py; pz; IZR 180 * atan t / PI], (1 / (ux * ux));
            split; [apply Rdiv_lt_0_compat; nra|]; split; [reflexivity|];
            intros [[x y] z]; cbn [t4_value]; rewrite tan_deg_atan;
            unfold cone_poly, norm2, dot, vsub, sqr; use_eqs Ex Ey Ez; field; nra).
  all: try (exists CONEY, [px; py; pz; IZR 180 * atan t / PI], (1 / (uy * uy));
            split; [apply Rdiv_lt_0_compat; nra|]; split; [reflexivity|];
            intros [[x y] z]; cbn [t4_value]; rewrite tan_deg_atan;
            unfold cone_poly, norm2, dot, vsub, sqr; use_eqs Ex Ey Ez; field; nra).
  all: exists CONE, [px; py; pz; IZR 180 * atan t / PI; ux; uy; uz],
              (1 / (ux * ux + uy * uy + uz * uz));
       split; [apply Rdiv_lt_0_compat; lra|]; split; [reflexivity|];
       intros [[x y] z]; cbn [t4_value]; rewrite tan_deg_atan;
       unfold cone_poly, perp2, norm2, dot, vsub, sqr; field; lra.
Qed.

(* ---- one entry ---- *)
Notation moved := (move_ms RS).

Lemma moved_frame tr ty P U compl :
  ty <> TGQ -> moved tr (mkMs ty (Some (P, U)) compl) = mkMs ty (Some (mvp tr P, mvv tr U)) compl.
Proof.
  intros Hty. destruct tr as [[[[o r0] r1] r2]|]; [|reflexivity].
  cbn [move_ms mvp mvv]. unfold transform_ms. cbn [ms_ty ms_frame ms_compl].
  destruct ty; try reflexivity. congruence.
Qed.

Lemma unit_norm2 (n : pt) : n <> (0, 0, 0) -> norm2 (vmul (1 / norm n) n) = 1.
Proof.
  intros Hn. pose proof (norm_pos n Hn). pose proof (norm_sqr n) as Hs.
  unfold norm2. rewrite dot_vmul_l, dot_vmul_r. fold (norm2 n). rewrite <- Hs. field. lra.
Qed.

Theorem convert_entry_sound (tr : option rtransf) (e : rentry) :
  tr_ok tr -> entry_wf e ->
  exists t prm c, 0 < c /\ convert_entry RS tr e = Ok [(t, prm, snd e)] /\
    forall p, t4_value t prm p = c * eval_surf (fst (fst e)) (snd (fst e)) (frame_of tr p).
Proof.
  intros Htr Hwf. destruct e as [[ty prm] side]. cbn [fst snd].
  unfold convert_entry.
  assert (Side : forall t (p : list R), with_side side [(t, p, 1%Z)] = [(t, p, side)]).
  { intros t p. unfold with_side. cbn [map]. now rewrite Z.mul_1_l. }
  destruct ty.
  - (* P *)
    destruct prm as [|a [|b [|c [|d [|? ?]]]]]; try contradiction. cbn [entry_wf] in Hwf.
    set (n := (a, b, c)) in *. pose proof (norm_pos n Hwf) as HN. pose proof (norm_sqr n) as Hs.
    cbn [to_msurf]. unfold plane_frame. rs. change (sqrt (a * a + b * b + c * c)) with (norm n).
    rewrite !divr_ok by lra. cbn [bind].
    set (N := norm n) in *.
    set (U0 := (a / N, b / N, c / N)).
    set (P0 := (0 + a / N * (d / N), 0 + b / N * (d / N), 0 + c / N * (d / N))).
    rewrite moved_frame by discriminate.
    assert (HU0 : U0 <> (0, 0, 0)).
    { intros E. apply Hwf. unfold U0, n in *. injection E as E1 E2 E3.
      assert (forall x, x / N = 0 -> x = 0) as Z.
      { intros x Hx. apply (Rmult_eq_reg_r (/ N)); [|apply Rinv_neq_0_compat; lra].
        unfold Rdiv in Hx. lra. }
      apply pair3; apply Z; assumption. }
    destruct (t4_plane (mvp tr P0) (mvv tr U0) [] (mvv_nonzero tr U0 Htr HU0))
      as (t & q & c1 & Hc1 & E & V).
    rewrite E. cbn [bind]. rewrite Side.
    exists t, q, (c1 / N). split; [apply Rdiv_lt_0_compat; lra|]. split; [reflexivity|].
    intros p. rewrite V, mv_dot by assumption. cbn [eval_surf].
    set (g := frame_of tr p). destruct g as [[x y] z].
    unfold U0, P0, dot, vsub. unfold norm2, dot, n in Hs.
    replace (a / N * (x - (0 + a / N * (d / N))) + b / N * (y - (0 + b / N * (d / N))) +
             c / N * (z - (0 + c / N * (d / N))))
      with ((a * x + b * y + c * z) / N - (a * a + b * b + c * c) * d / (N * N * N))
      by (field; lra).
    rewrite <- Hs. field. lra.
  - (* S *)
    destruct prm as [|x0 [|y0 [|z0 [|r [|? ?]]]]]; try contradiction.
    cbn [to_msurf bind]. rs. rewrite moved_frame by discriminate.
    remember (mvp tr (x0, y0, z0)) as P eqn:EP. destruct P as [[px py] pz].
    unfold to_t4. cbn [ms_ty ms_frame ms_compl nth bind]. rewrite Side.
    exists SPHERE, [px; py; pz; r], 1. split; [lra|]. split; [reflexivity|].
    intros p. cbn [eval_surf]. rewrite <- (mv_norm2 tr (x0, y0, z0) p Htr), <- EP.
    destruct p as [[x y] z]. cbn [t4_value]. ring.
  - (* C *)
    destruct prm as [|x0 [|y0 [|z0 [|r [|a [|b [|c [|? ?]]]]]]]]; try contradiction.
    cbn [entry_wf] in Hwf. cbn [to_msurf bind]. rewrite moved_frame by discriminate.
    destruct (t4_cyl (mvp tr (x0, y0, z0)) (mvv tr (a, b, c)) r (mvv_nonzero tr _ Htr Hwf))
      as (t & q & c1 & Hc1 & E & V).
    rewrite E. cbn [bind]. rewrite Side. exists t, q, c1. split; [exact Hc1|]. split; [reflexivity|].
    intros p. rewrite V. unfold cyl_poly. cbv zeta.
    rewrite mv_norm2, mvv_norm2, (dot_comm _ (mvv tr (a, b, c))), mv_dot by assumption.
    cbn [eval_surf]. rewrite (dot_comm (a, b, c)). reflexivity.
  - (* K *)
    destruct prm as [|x0 [|y0 [|z0 [|t0 [|a [|b [|c [|? ?]]]]]]]]; try contradiction.
    cbn [entry_wf] in Hwf. cbn [to_msurf bind]. rs.
    replace (x0 + a * 0, y0 + b * 0, z0 + c * 0) with (x0, y0, z0) by (apply pair3; ring).
    rewrite moved_frame by discriminate.
    destruct (t4_cone (mvp tr (x0, y0, z0)) (mvv tr (a, b, c)) t0 (t0 * 0)
                      (mvv_nonzero tr _ Htr Hwf)) as (t & q & c1 & Hc1 & E & V).
    rewrite E. cbn [bind]. rewrite Side. exists t, q, c1. split; [exact Hc1|]. split; [reflexivity|].
    intros p. rewrite V. unfold cone_poly. cbv zeta.
    rewrite mv_norm2, mvv_norm2, (dot_comm _ (mvv tr (a, b, c))), mv_dot by assumption.
    cbn [eval_surf]. rewrite (dot_comm (a, b, c)). reflexivity.
  - (* GQ *)
    destruct prm as [|A [|B [|C [|D [|E [|F [|G [|H [|J [|K [|? ?]]]]]]]]]]]; try contradiction.
    cbn [to_msurf bind]. destruct tr as [[[[o r0] r1] r2]|].
    + cbn [move_ms]. unfold transform_ms. cbn [ms_ty ms_frame ms_compl].
      unfold to_t4. cbn [ms_ty ms_frame ms_compl bind]. rewrite Side.
      eexists QUAD, _, 1. split; [lra|]. split; [reflexivity|].
      intros p. cbn [eval_surf frame_of to_aux].
      destruct p as [[x y] z]. cbn [t4_value]. rewrite quad_congruence. ring.
    + cbn [move_ms]. unfold to_t4. cbn [ms_ty ms_frame ms_compl bind]. rewrite Side.
      eexists QUAD, _, 1. split; [lra|]. split; [reflexivity|].
      intros [[x y] z]. cbn [eval_surf frame_of t4_value]. ring.
Qed.
