(* C03 — executable model of what happens to every entry (type, parameters,
   side) a body function returns, up to the TRIPOLI-4 surface that is written:

     ParseMCNPSurface.to_surface_mcnp      normalize_surface + the MIP frame
                                           (MIP/geom/forcad.py: p _plane _sphere
                                           _cylinder _cone gq), SurfaceMCNP
     Transformation.transformation         a TR on the surface card, or the
                                           TRCL / FILL transformation applied by
                                           CellConversion.pot_transform
                                           (MIP transform_point/transform_vector,
                                           transformation_quad for GQ)
     ConversionSurfaceMCNPToT4.conversion_surface_params
                                           convert_plane convert_cylinder
                                           convert_sphere convert_quadric
                                           convert_cone (no nappe: macrobody
                                           cones are two-sheeted)
     SurfaceCollection.join                the side of the facet
     CollectionDict._get_item              facet selection n.k
     CellConversion.pot_transform          leaf that is a surface reference

   Written over an abstract scalar like Model.v; no proofs here. *)
From Coq Require Import List ZArith Bool.
From T4V Require Import Base.Scalar C03.Vec C03.Model.
Import ListNotations.
Open Scope res_scope.

Inductive t4type :=
| PLANEX | PLANEY | PLANEZ | PLANE | SPHERE | CYLX | CYLY | CYLZ | CYL
| CONEX | CONEY | CONEZ | CONE | QUAD.

Section Convert.
  Context {T : Type} (S : Scalar T).

  Local Notation "0" := (s0 S).
  Local Notation "1" := (s1 S).
  Local Infix "+" := (sadd S).
  Local Infix "-" := (ssub S).
  Local Infix "*" := (smul S).
  Local Notation vec := (@vec T).
  Local Notation entry := (@entry T).

  (* SurfaceMCNP: type, frame (point, direction) -- (None, None) for GQ --,
     complementary parameters *)
  Record msurf := mkMs { ms_ty : stype; ms_frame : option (vec * vec); ms_compl : list T }.

  (* a TRIPOLI-4 surface with the side it is used with *)
  Definition t4e : Type := (t4type * list T * Z)%type.

  (* forcad.p: normalise (A, B, C, D), the point of the plane closest to the
     origin, the unit normal *)
  Definition plane_frame (A B C D : T) : res msurf :=
    let c := ssqrt S (A * A + B * B + C * C) in
    do a <- divr S A c; do b <- divr S B c; do c' <- divr S C c; do d <- divr S D c;
    Ok (mkMs TP (Some ((0 + a * d, 0 + b * d, 0 + c' * d), (a, b, c'))) []).

  (* to_surface_mcnp without a transformation *)
  Definition to_msurf (ty : stype) (prm : list T) : res msurf :=
    match ty, prm with
    | TP, [A; B; C; D] => plane_frame A B C D
    | TP, [x1; y1; z1; x2; y2; z2; x3; y3; z3] =>
        do pl <- plane_from_points S (x1, y1, z1) (x2, y2, z2) (x3, y3, z3);
        plane_frame (nth 0 pl 0) (nth 1 pl 0) (nth 2 pl 0) (nth 3 pl 0)
    | TP, _ => Err EValue
    | TS, [x; y; z; r] => Ok (mkMs TS (Some ((x, y, z), (0, 0, 1))) [r])
    | TC, [x; y; z; r; a; b; c] => Ok (mkMs TC (Some ((x, y, z), (a, b, c))) [r])
    | TK, [x; y; z; t; a; b; c] =>
        Ok (mkMs TK (Some ((x + a * 0, y + b * 0, z + c * 0), (a, b, c)))
                 [t * 0; satan S t])
    | TGQ, _ => Ok (mkMs TGQ None prm)
    | _, _ => Err EType
    end.

  (* a normalised transformation: displacement and the three rows of the matrix
     as written on the TR card (B1 B2 B3 / B4 B5 B6 / B7 B8 B9) *)
  Definition transf : Type := (vec * vec * vec * vec)%type.

  (* MIP transform_vector: v' = B^T v *)
  Definition tr_vector (tr : transf) (v : vec) : vec :=
    let '(_, (b1, b2, b3), (b4, b5, b6), (b7, b8, b9)) := tr in
    let '(x, y, z) := v in
    (b1 * x + b4 * y + b7 * z, b2 * x + b5 * y + b8 * z, b3 * x + b6 * y + b9 * z).

  Definition tr_point (tr : transf) (p : vec) : vec :=
    let '((ox, oy, oz), _, _, _) := tr in
    let '(x, y, z) := tr_vector tr p in (ox + x, oy + y, oz + z).

  (* Transformation.transformation *)
  Definition transform_ms (tr : transf) (ms : msurf) : msurf :=
    let '(o, r0, r1, r2) := tr in
    match ms_ty ms, ms_frame ms with
    | TGQ, fr => mkMs TGQ fr (transformation_quad S (ms_compl ms) o r0 r1 r2)
    | ty, Some (p, v) => mkMs ty (Some (tr_point tr p, tr_vector tr v)) (ms_compl ms)
    | _, None => ms
    end.

  Definition is0 (x : T) : bool := seqb S x 0.

  (* conversion_surface_params *)
  Definition to_t4 (ms : msurf) : res (list t4e) :=
    match ms_ty ms, ms_frame ms with
    | TP, Some ((px, py, pz), (ux, uy, uz)) =>
        let pos := sneg S (ux * px + uy * py + uz * pz) in
        if is0 ux && is0 uy && sltb S 0 uz then Ok [(PLANEZ, [sdiv S (sneg S pos) uz], 1%Z)]
        else if is0 uy && is0 uz && sltb S 0 ux then Ok [(PLANEX, [sdiv S (sneg S pos) ux], 1%Z)]
        else if is0 uz && is0 ux && sltb S 0 uy then Ok [(PLANEY, [sdiv S (sneg S pos) uy], 1%Z)]
        else Ok [(PLANE, [ux; uy; uz; pos], 1%Z)]
    | TC, Some ((px, py, pz), (ux, uy, uz)) =>
        let r := nth 0 (ms_compl ms) 0 in
        if is0 ux && is0 uy then Ok [(CYLZ, [px; py; r], 1%Z)]
        else if is0 uy && is0 uz then Ok [(CYLX, [py; pz; r], 1%Z)]
        else if is0 uz && is0 ux then Ok [(CYLY, [px; pz; r], 1%Z)]
        else Ok [(CYL, [px; py; pz; r; ux; uy; uz], 1%Z)]
    | TS, Some ((px, py, pz), _) => Ok [(SPHERE, [px; py; pz; nth 0 (ms_compl ms) 0], 1%Z)]
    | TGQ, _ => Ok [(QUAD, ms_compl ms, 1%Z)]
    | TK, Some ((px, py, pz), (ux, uy, uz)) =>
        let theta := sdiv S (sofZ S 180 * nth 1 (ms_compl ms) 0) (spi S) in
        if is0 ux && is0 uy then Ok [(CONEZ, [px; py; pz; theta], 1%Z)]
        else if is0 uy && is0 uz then Ok [(CONEX, [px; py; pz; theta], 1%Z)]
        else if is0 uz && is0 ux then Ok [(CONEY, [px; py; pz; theta], 1%Z)]
        else Ok [(CONE, [px; py; pz; theta; ux; uy; uz], 1%Z)]
    | _, None => Err EType
    end.

  (* SurfaceCollection.join for one (collection, side) pair *)
  Definition with_side (side : Z) (l : list t4e) : list t4e :=
    map (fun '(t, p, s) => (t, p, (s * side)%Z)) l.

  (* one entry of a body, optionally moved by a transformation, to the
     TRIPOLI-4 surface(s) written for it *)
  Definition move_ms (tr : option transf) (ms : msurf) : msurf :=
    match tr with Some t => transform_ms t ms | None => ms end.

  Definition convert_entry (tr : option transf) (e : entry) : res (list t4e) :=
    let '(ty, prm, side) := e in
    do ms <- to_msurf ty prm;
    do l <- to_t4 (move_ms tr ms);
    Ok (with_side side l).

  Fixpoint convert_entries (tr : option transf) (es : list entry) : res (list t4e) :=
    match es with
    | [] => Ok []
    | e :: r => do l <- convert_entry tr e; do m <- convert_entries tr r; Ok (l ++ m)
    end.

  (* the whole body: MacroBodies.* then every entry converted *)
  Definition body_t4 (tr : option transf) (b : body) (p : list T) (d : list N)
    : res (list t4e) :=
    do es <- body_parts S b p d; convert_entries tr es.

  (* CollectionDict._get_item: the whole collection, or the one-element list of
     facet k (1-based); k <= 0 or k > n is an IndexError *)
  Definition coll_get {A} (coll : list A) (sub : option nat) : res (list A) :=
    match sub with
    | None => Ok coll
    | Some O => Err EIndex
    | Some (Datatypes.S j) =>
        match nth_error coll j with Some x => Ok [x] | None => Err EIndex end
    end.

  (* CellConversion.pot_transform on a surface reference (n, sub) of a cell
     moved by tr: the selected entries are transformed and become the
     collection of a NEW surface number; the reference loses its facet part *)
  Definition pot_transform_ref (tr : transf) (es : list entry) (sub : option nat)
    : res (list t4e) :=
    do sel <- coll_get es sub; convert_entries (Some tr) sel.
End Convert.
