(* C03 — the bodies with a quadric facet: REC, TRC, ELL.  The quadric that
   transformation_quad returns is the canonical one read in the frame
   (r0, r1, r2) centred at t (the congruence lemma), hence MCNP's facet. *)
From Coq Require Import List ZArith Bool Reals Lra Lia.
From T4V Require Import Base.Scalar C03.Vec C03.Model C03.Convert C03.Spec C03.SpecT4
  C03.VecFacts C03.WfFacts C03.ProofsPlanes.
Import ListNotations.
Open Scope R_scope.

(* transformation_quad: x |-> R (x - t) substituted in the quadric *)
Lemma quad_congruence (A B C D E F G H J K : R) (t r0 r1 r2 p : pt) :
  eval_gq (transformation_quad RS [A; B; C; D; E; F; G; H; J; K] t r0 r1 r2) p =
  eval_gq [A; B; C; D; E; F; G; H; J; K]
          (dot r0 (vsub p t), dot r1 (vsub p t), dot r2 (vsub p t)).
Proof.
  destruct t as [[t0 t1] t2], r0 as [[r00 r01] r02], r1 as [[r10 r11] r12],
           r2 as [[r20 r21] r22], p as [[x y] z].
  unfold transformation_quad, matmul4, transpose4, dot4, half, two.
  cbn [nth]. rs. unfold eval_gq, dot, vsub. simpl IZR. field.
Qed.

Lemma divr_ok (a x : R) : x <> 0 -> divr RS a x = Ok (a / x).
Proof.
  intros Hx. unfold divr. rs. destruct (Reqb x 0) eqn:E; [apply Reqb_true in E; lra|reflexivity].
Qed.

Lemma renorm_to_ok (w : pt) (k : R) :
  w <> (0, 0, 0) -> renorm_to RS w k = Ok (vmul (k / norm w) w).
Proof.
  intros Hw. unfold renorm_to. tospec. rewrite divr_ok by (pose proof (norm_pos w Hw); lra).
  reflexivity.
Qed.

Lemma unit_dot_sqr (a q : pt) :
  a <> (0, 0, 0) -> sqr (dot (vmul (1 / norm a) a) q) = sqr (dot a q) / norm2 a.
Proof.
  intros Ha. pose proof (norm_pos a Ha) as Hn. pose proof (norm_sqr a) as Hs.
  rewrite dot_vmul_l. unfold sqr. rewrite <- Hs. field. lra.
Qed.

Lemma vmul_zero (k : R) (u : pt) : k <> 0 -> vmul k u = (0, 0, 0) -> u = (0, 0, 0).
Proof.
  intros Hk. destruct u as [[x y] z]. unfold vmul. intros E.
  injection E as Ex Ey Ez.
  apply pair3; apply (Rmult_eq_reg_l k); try exact Hk; rewrite Rmult_0_r; assumption.
Qed.

(* ---------------- REC ---------------- *)
(* the elliptical cylinder emitted for axes a1 (major) and a2 (minor vector) *)
Lemma rec_quadric_ok (v h a1 a2 : pt) (ib : R) :
  a1 <> (0, 0, 0) -> a2 <> (0, 0, 0) -> ib = 1 / norm2 a2 ->
  same_facet
    (TGQ, transformation_quad RS ([1 / norm2 a1; ib] ++ zeros RS 7 ++ [m1 RS]) v
            (vmul (1 / norm a1) a1) (vmul (1 / norm a2) a2) (vmul (1 / norm h) h), 1%Z)
    (ellcyl v a1 a2).
Proof.
  intros H1 H2 ->. exists 1. split; [lra|]. intros p.
  cbn [entry_value eval_surf app zeros repeat m1]. rs. rewrite quad_congruence.
  pose proof (norm2_pos a1 H1) as N1. pose proof (norm2_pos a2 H2) as N2.
  pose proof (unit_dot_sqr a1 (vsub p v) H1) as U1.
  pose proof (unit_dot_sqr a2 (vsub p v) H2) as U2.
  unfold eval_gq, ellcyl. unfold sqr in *.
  set (X := dot (vmul (1 / norm a1) a1) (vsub p v)) in *.
  set (Y := dot (vmul (1 / norm a2) a2) (vsub p v)) in *.
  rewrite (dot_comm (vsub p v) a1), (dot_comm (vsub p v) a2).
  replace (1 / norm2 a1 * X * X) with (X * X / norm2 a1) by (field; lra).
  replace (1 / norm2 a2 * Y * Y) with (Y * Y / norm2 a2) by (field; lra).
  rewrite U1, U2. unfold m1. rs. simpl IZR. field. lra.
Qed.

Lemma rec12_facets_ok_full (v h a1 a2 : pt) :
  h <> (0, 0, 0) -> a1 <> (0, 0, 0) -> a2 <> (0, 0, 0) ->
  exists es, rec RS (pl v ++ pl h ++ pl a1 ++ pl a2) = Ok es /\ Forall entry_wf es /\
             Forall2 same_facet es (rec_facets v h a1 a2).
Proof.
  intros Hh H1 H2. open_body @rec. rewrite (pl_nil a2), v3_at0, v3_at3, v3_at6, v3_at9.
  tospec. pose proof (norm2_pos a1 H1) as N1. pose proof (norm2_pos a2 H2) as N2.
  rewrite !divr_ok by (unfold norm2 in *; lra). cbn [bind].
  rewrite !renorm_ok by assumption. cbn [bind].
  eexists; split; [reflexivity|].
  split; [constructor; [apply wf_gq | now apply wf_end_planes]|]. unfold rec_facets.
  constructor; [|apply end_planes_ok].
  apply rec_quadric_ok; auto.
Qed.

Theorem rec12_facets_ok (v h a1 a2 : pt) :
  h <> (0, 0, 0) -> a1 <> (0, 0, 0) -> a2 <> (0, 0, 0) ->
  exists es, rec RS (pl v ++ pl h ++ pl a1 ++ pl a2) = Ok es /\
             Forall2 same_facet es (rec_facets v h a1 a2).
Proof.
  intros. edestruct (rec12_facets_ok_full v h a1 a2) as (es & E & _ & F); try eassumption.
  exists es; split; assumption.
Qed.

(* ten entries: the minor semi-axis has length |b| along h x a1 *)
Lemma rec10_facets_ok_full (v h a1 : pt) (b : R) :
  cross h a1 <> (0, 0, 0) -> b <> 0 ->
  exists es, rec RS (pl v ++ pl h ++ pl a1 ++ [b]) = Ok es /\ Forall entry_wf es /\
             Forall2 same_facet es (rec_facets v h a1 (rec10_minor h a1 b)).
Proof.
  intros Hc Hb.
  assert (Hh : h <> (0, 0, 0)).
  { intros ->. apply Hc. destruct a1 as [[x y] z]. unfold cross. apply pair3; ring. }
  assert (H1 : a1 <> (0, 0, 0)).
  { intros ->. apply Hc. destruct h as [[x y] z]. unfold cross. apply pair3; ring. }
  pose proof (norm_pos _ Hc) as Nc. pose proof (norm2_pos _ H1) as N1.
  assert (H2 : rec10_minor h a1 b <> (0, 0, 0)).
  { unfold rec10_minor. intros E. apply Hc. apply (vmul_zero (b / norm (cross h a1))); [|exact E].
    unfold Rdiv. apply Rmult_integral_contrapositive_currified; [exact Hb|].
    apply Rinv_neq_0_compat. lra. }
  assert (N2 : norm2 (rec10_minor h a1 b) = b * b).
  { unfold rec10_minor, norm2. rewrite dot_vmul_l, dot_vmul_r. fold (norm2 (cross h a1)).
    rewrite <- (norm_sqr (cross h a1)). field. lra. }
  open_body @rec. rewrite v3_at0, v3_at3, v3_at6.
  change 9%nat with (3 + (3 + (3 + 0)))%nat. rewrite !nth_skip. cbn [nth]. tospec.
  rewrite renorm_to_ok by assumption. cbn [bind].
  rewrite !divr_ok by (unfold norm2 in *; nra). cbn [bind].
  fold (rec10_minor h a1 b).
  rewrite !renorm_ok by assumption. cbn [bind].
  eexists; split; [reflexivity|].
  split; [constructor; [apply wf_gq | now apply wf_end_planes]|]. unfold rec_facets.
  constructor; [|apply end_planes_ok].
  apply rec_quadric_ok; auto. now rewrite N2.
Qed.

Theorem rec10_facets_ok (v h a1 : pt) (b : R) :
  cross h a1 <> (0, 0, 0) -> b <> 0 ->
  exists es, rec RS (pl v ++ pl h ++ pl a1 ++ [b]) = Ok es /\
             Forall2 same_facet es (rec_facets v h a1 (rec10_minor h a1 b)).
Proof.
  intros. edestruct (rec10_facets_ok_full v h a1 b) as (es & E & _ & F); try eassumption.
  exists es; split; assumption.
Qed.

(* ---------------- TRC ---------------- *)
Lemma eval_cone (apex u : pt) (t : R) (p : pt) :
  eval_surf TK (pl apex ++ [t] ++ pl u) p =
  norm2 (vsub p apex) * norm2 u - sqr (dot (vsub p apex) u)
  - t * t * sqr (dot (vsub p apex) u).
Proof. destruct apex as [[x y] z], u as [[a b] c]. reflexivity. Qed.

Lemma trc_facets_ok_full (v h : pt) (r0 r1 : R) :
  h <> (0, 0, 0) -> r0 <> r1 ->
  exists es, trc RS (pl v ++ pl h ++ [r0; r1]) = Ok es /\ Forall entry_wf es /\
             Forall2 same_facet es (trc_facets v h r0 r1).
Proof.
  intros Hh Hr. pose proof (norm_pos h Hh) as Hn. pose proof (norm2_pos h Hh) as HN.
  pose proof (norm_sqr h) as Hs.
  open_body @trc. rewrite v3_at0, v3_at3.
  change 7%nat with (3 + (3 + 1))%nat. change 6%nat with (3 + (3 + 0))%nat.
  rewrite !nth_skip. cbn [nth]. tospec.
  rewrite (divr_ok r0 (r0 - r1)) by (intros X; apply Hr; lra). cbn [bind]. rewrite divr_ok by lra. cbn [bind]. rewrite renorm_ok by assumption. cbn [bind]. tospec.
  eexists; split; [reflexivity|].
  split; [constructor; [apply wf_cone; apply vmul_nz; [pose proof (Rinv_0_lt_compat _ Hn); unfold Rdiv; lra | assumption] | now apply wf_end_planes]|]. unfold trc_facets.
  constructor; [|apply end_planes_ok].
  exists 1. split; [lra|]. intros p. cbn [entry_value]. rewrite eval_cone.
  unfold trc_cone, perp2.
  set (d := r0 / (r0 - r1)). set (q0 := vsub p v).
  assert (Q : vsub p (vadd v (vmul d h)) = vsub q0 (vmul d h)).
  { subst q0. destruct p as [[p1 p2] p3], v as [[v1 v2] v3], h as [[h1 h2] h3].
    unfold vsub, vadd, vmul. apply pair3; ring. }
  rewrite Q.
  assert (E1 : norm2 (vmul (1 / norm h) h) = 1).
  { unfold norm2. rewrite dot_vmul_l, dot_vmul_r. fold (norm2 h). rewrite <- Hs. field. lra. }
  assert (E2 : sqr (dot (vsub q0 (vmul d h)) (vmul (1 / norm h) h))
               = sqr (dot q0 h - d * norm2 h) / norm2 h).
  { rewrite dot_comm, unit_dot_sqr by assumption. rewrite dot_vsub_r, dot_vmul_r.
    fold (norm2 h). now rewrite (dot_comm h q0). }
  assert (E3 : norm2 (vsub q0 (vmul d h)) = norm2 q0 - 2 * d * dot q0 h + d * d * norm2 h).
  { unfold norm2. rewrite dot_vsub_l, !dot_vsub_r, !dot_vmul_l, !dot_vmul_r.
    rewrite (dot_comm h q0). ring. }
  assert (E4 : Rabs (r1 - r0) / norm h * (Rabs (r1 - r0) / norm h)
               = (r1 - r0) * (r1 - r0) / norm2 h).
  { rewrite <- Hs. pose proof (Rsqr_abs (r1 - r0)) as A. unfold Rsqr in A.
    replace (Rabs (r1 - r0) / norm h * (Rabs (r1 - r0) / norm h))
      with (Rabs (r1 - r0) * Rabs (r1 - r0) / (norm h * norm h)) by (field; lra).
    now rewrite <- A. }
  rewrite E1, E2, E3, E4. unfold sqr, d. simpl IZR. field. split; lra.
Qed.

Theorem trc_facets_ok (v h : pt) (r0 r1 : R) :
  h <> (0, 0, 0) -> r0 <> r1 ->
  exists es, trc RS (pl v ++ pl h ++ [r0; r1]) = Ok es /\
             Forall2 same_facet es (trc_facets v h r0 r1).
Proof.
  intros. edestruct (trc_facets_ok_full v h r0 r1) as (es & E & _ & F); try eassumption.
  exists es; split; assumption.
Qed.

(* ---------------- ELL ---------------- *)
(* the spheroid in any orthonormal frame whose first vector is along a *)
Lemma spheroid_frame (c a ub : pt) (b2 : R) (p : pt) :
  a <> (0, 0, 0) -> b2 <> 0 ->
  let ua := vmul (1 / norm a) a in
  norm2 ub = 1 -> dot ua ub = 0 ->
  eval_gq (transformation_quad RS ([1 / norm2 a; 1 / b2; 1 / b2] ++ zeros RS 6 ++ [m1 RS])
             c ua ub (cross ua ub)) p
  = spheroid c a b2 p.
Proof.
  intros Ha Hb ua Nb Hab. pose proof (norm2_pos a Ha) as HN. pose proof (norm_pos a Ha) as Hn.
  pose proof (norm_sqr a) as Hs.
  assert (Na : norm2 ua = 1).
  { unfold ua, norm2. rewrite dot_vmul_l, dot_vmul_r. fold (norm2 a). rewrite <- Hs. field. lra. }
  cbn [app zeros repeat]. unfold m1. rs. rewrite quad_congruence.
  set (q := vsub p c).
  pose proof (parseval ua ub q Na Nb Hab) as P.
  pose proof (unit_dot_sqr a q Ha) as U. fold ua in U.
  unfold eval_gq, spheroid, perp2. fold q. unfold sqr in *.
  rewrite (dot_comm q a).
  set (X := dot ua q) in *. set (Y := dot ub q) in *. set (Z := dot (cross ua ub) q) in *.
  replace (1 / norm2 a * X * X) with (X * X / norm2 a) by (field; lra).
  rewrite P, U. simpl IZR. field. split; lra.
Qed.

(* Gram-Schmidt against a coordinate axis *)
Lemma gs_unit (ua e : pt) (k : R) :
  norm2 ua = 1 -> norm2 e = 1 -> k = dot ua e -> k * k <> 1 ->
  exists ub, renorm RS (vdiff RS e (rescale RS k ua)) = Ok ub /\
             norm2 ub = 1 /\ dot ua ub = 0.
Proof.
  intros Na Ne -> Hk. tospec. set (k := dot ua e) in *. set (w := vsub e (vmul k ua)).
  assert (Nw : norm2 w = 1 - k * k).
  { unfold w, norm2. rewrite dot_vsub_l, !dot_vsub_r, !dot_vmul_l, !dot_vmul_r.
    fold (norm2 ua) (norm2 e). rewrite Na, Ne, (dot_comm e ua). fold k. ring. }
  assert (Hw : w <> (0, 0, 0)).
  { intros E. rewrite E in Nw. unfold norm2, dot in Nw. apply Hk. lra. }
  pose proof (norm_pos w Hw) as Hn. pose proof (norm_sqr w) as Hs.
  exists (vmul (1 / norm w) w). split; [now apply renorm_ok|]. split.
  - unfold norm2. rewrite dot_vmul_l, dot_vmul_r. fold (norm2 w). rewrite <- Hs. field. lra.
  - rewrite dot_vmul_r. unfold w. rewrite dot_vsub_r, dot_vmul_r. fold (norm2 ua) k.
    rewrite Na. ring.
Qed.

Lemma ell_quadric_ok (c a : pt) (b2 : R) :
  a <> (0, 0, 0) -> b2 <> 0 ->
  exists es, ell_quadric RS c a b2 = Ok es /\ Forall entry_wf es /\
             Forall2 same_facet es [spheroid c a b2].
Proof.
  intros Ha Hb. pose proof (norm2_pos a Ha) as HN. pose proof (norm_pos a Ha) as Hn.
  pose proof (norm_sqr a) as Hs.
  unfold ell_quadric. rewrite renorm_ok by assumption. cbn [bind].
  pose proof (spheroid_frame c a) as SF. cbv zeta in SF.
  assert (Na : norm2 (vmul (1 / norm a) a) = 1).
  { unfold norm2. rewrite dot_vmul_l, dot_vmul_r. fold (norm2 a). rewrite <- Hs. field. lra. }
  destruct (vmul (1 / norm a) a) as [[u0 u1] u2] eqn:EU.
  assert (N1 : u0 * u0 + u1 * u1 + u2 * u2 = 1) by exact Na.
  assert (Finish : forall ub, norm2 ub = 1 -> dot (u0, u1, u2) ub = 0 ->
            exists es,
              (do ia <- divr RS (s1 RS) (mag2 RS a); do ib <- divr RS (s1 RS) b2;
               Ok [(TGQ, transformation_quad RS ([ia; ib; ib] ++ zeros RS 6 ++ [m1 RS]) c
                           (u0, u1, u2) ub (vect RS (u0, u1, u2) ub), 1%Z)]) = Ok es /\
              Forall entry_wf es /\ Forall2 same_facet es [spheroid c a b2]).
  { intros ub Nb Hab. tospec. rewrite !divr_ok by lra. cbn [bind].
    eexists; split; [reflexivity|]. split; [constructor; [apply wf_gq|constructor]|].
    constructor; [|constructor].
    exists 1. split; [lra|]. intros p. cbn [entry_value eval_surf].
    rewrite (SF ub b2 p Ha Hb Nb Hab). simpl IZR. ring. }
  assert (C3 : c1em3 RS = 1 / 1000) by reflexivity.
  assert (Far : forall x, sltb RS (c1em3 RS) (sabs RS (ssub RS (s1 RS) (sabs RS x))) = true ->
                          x * x <> 1).
  { intros x. rs. rewrite C3. intros F. apply Rltb_true in F. intros E.
    assert (A : Rabs x = 1).
    { pose proof (Rsqr_abs x) as Q. unfold Rsqr in Q. pose proof (Rabs_pos x). nra. }
    rewrite A in F. replace (1 - 1) with 0 in F by ring. rewrite Rabs_R0 in F. lra. }
  assert (Near : forall x, sltb RS (c1em3 RS) (sabs RS (ssub RS (s1 RS) (sabs RS x))) = false ->
                           99 / 100 <= x * x).
  { intros x. rs. rewrite C3. intros F. apply Rltb_false in F.
    pose proof (Rsqr_abs x) as Q. unfold Rsqr in Q. pose proof (Rabs_pos x).
    assert (A : 999 / 1000 <= Rabs x).
    { destruct (Rle_dec 0 (1 - Rabs x)) as [L|L].
      - rewrite Rabs_right in F by lra. lra.
      - lra. }
    nra. }
  destruct (sltb RS (c1em3 RS) (sabs RS (ssub RS (s1 RS) (sabs RS u0)))) eqn:F0.
  - destruct (gs_unit (u0, u1, u2) (s1 RS, s0 RS, s0 RS) u0 Na) as (ub & -> & Nb & Hab).
    + unfold norm2, dot. rs. ring.
    + unfold dot. rs. ring.
    + now apply Far.
    + cbn [bind]. now apply Finish.
  - destruct (sltb RS (c1em3 RS) (sabs RS (ssub RS (s1 RS) (sabs RS u1)))) eqn:F1.
    + destruct (gs_unit (u0, u1, u2) (s0 RS, s1 RS, s0 RS) u1 Na) as (ub & -> & Nb & Hab).
      * unfold norm2, dot. rs. ring.
      * unfold dot. rs. ring.
      * now apply Far.
      * cbn [bind]. now apply Finish.
    + destruct (gs_unit (u0, u1, u2) (s0 RS, s0 RS, s1 RS) u2 Na) as (ub & -> & Nb & Hab).
      * unfold norm2, dot. rs. ring.
      * unfold dot. rs. ring.
      * apply Near in F0. nra.
      * cbn [bind]. now apply Finish.
Qed.

(* second parameterisation: centre, major semi-axis vector, minus the minor
   radius (last entry not positive) *)
Lemma ell_axis_facets_ok_full (c a : pt) (mb : R) :
  a <> (0, 0, 0) -> mb < 0 ->
  exists es, ell RS (pl c ++ pl a ++ [mb]) = Ok es /\ Forall entry_wf es /\
             Forall2 same_facet es (ell_axis_facets c a mb).
Proof.
  intros Ha Hb. open_body @ell. rewrite v3_at0, v3_at3.
  change 6%nat with (3 + (3 + 0))%nat. rewrite !nth_skip. cbn [nth]. rs.
  destruct (Rltb_case 0 mb) as [[L _]|[_ ->]]; [lra|]. cbn [bind].
  apply ell_quadric_ok; [assumption|nra].
Qed.

Theorem ell_axis_facets_ok (c a : pt) (mb : R) :
  a <> (0, 0, 0) -> mb < 0 ->
  exists es, ell RS (pl c ++ pl a ++ [mb]) = Ok es /\
             Forall2 same_facet es (ell_axis_facets c a mb).
Proof.
  intros. edestruct (ell_axis_facets_ok_full c a mb) as (es & E & _ & F); try eassumption.
  exists es; split; assumption.
Qed.

(* first parameterisation (last entry L > 0), as MCNP behaves according to the
   source comment of MacroBodies.ell *)
Lemma ell_foci_facets_ok_full (f1 f2 : pt) (L : R) :
  0 < L ->
  let f := vsub f1 (vmul (1 / 2) (vadd f1 f2)) in
  f <> (0, 0, 0) -> norm f <> 2 * L ->
  exists es, ell RS (pl f1 ++ pl f2 ++ [L]) = Ok es /\ Forall entry_wf es /\
             Forall2 same_facet es (ell_foci_facets f1 f2 L).
Proof.
  intros HL f Hf Hn. pose proof (norm_pos f Hf) as Hp.
  open_body @ell. rewrite v3_at0, v3_at3.
  change 6%nat with (3 + (3 + 0))%nat. rewrite !nth_skip. cbn [nth]. rs.
  destruct (Rltb_case 0 L) as [[_ ->]|[L0 _]]; [|lra].
  unfold half. tospec. simpl IZR. fold f.
  rewrite renorm_to_ok by assumption. cbn [bind].
  unfold ell_foci_facets. fold f. unfold sqr.
  apply ell_quadric_ok.
  - intros E. apply Hf. apply (vmul_zero (L / norm f)); [|exact E].
    unfold Rdiv. apply Rmult_integral_contrapositive_currified; [lra|].
    apply Rinv_neq_0_compat. lra.
  - intros E. apply Hn. nra.
Qed.

Theorem ell_foci_facets_ok (f1 f2 : pt) (L : R) :
  0 < L ->
  let f := vsub f1 (vmul (1 / 2) (vadd f1 f2)) in
  f <> (0, 0, 0) -> norm f <> 2 * L ->
  exists es, ell RS (pl f1 ++ pl f2 ++ [L]) = Ok es /\
             Forall2 same_facet es (ell_foci_facets f1 f2 L).
Proof.
  intros HL f Hf Hn. destruct (ell_foci_facets_ok_full f1 f2 L HL Hf Hn) as (es & E & _ & F).
  exists es; split; assumption.
Qed.

(* ---------------- TRC and REC as solids ---------------- *)
Lemma trc_inside_facets (v h : pt) (r0 r1 : R) (p : pt) :
  h <> (0, 0, 0) ->
  (trc_inside v h r0 r1 p <-> inside_of (trc_facets v h r0 r1) p).
Proof.
  intros Hh. pose proof (norm2_pos h Hh) as Hn.
  unfold trc_inside, inside_of, trc_facets, trc_cone, plane_end, plane_begin. split.
  - intros (t & w & Ht & Hw & Hr & ->).
    assert (E : vsub (vadd v (vadd (vmul t h) w)) v = vadd (vmul t h) w).
    { destruct v as [[v1 v2] v3], h as [[h1 h2] h3], w as [[w1 w2] w3].
      unfold vsub, vadd, vmul. apply pair3; ring. }
    assert (D : dot (vadd (vmul t h) w) h = t * norm2 h).
    { rewrite dot_vadd_l, dot_vmul_l, Hw. unfold norm2. ring. }
    apply Forall_cons; [|apply Forall_cons; [|apply Forall_cons; [|apply Forall_nil]]];
      cbv beta zeta; rewrite E.
    + unfold perp2. rewrite D.
      assert (N : norm2 (vadd (vmul t h) w) = t * t * norm2 h + norm2 w).
      { unfold norm2 at 1. rewrite dot_vadd_l, !dot_vadd_r, !dot_vmul_l, !dot_vmul_r.
        rewrite (dot_comm h w), Hw. unfold norm2. ring. }
      rewrite N. replace (t * norm2 h / norm2 h) with t by (field; lra).
      unfold sqr in *. replace (t * norm2 h * (t * norm2 h) / norm2 h) with (t * t * norm2 h)
        by (field; lra). lra.
    + rewrite dot_vsub_l, D. fold (norm2 h). nra.
    + rewrite D. nra.
  - intros H. repeat match goal with H : Forall _ (_ :: _) |- _ => inversion_clear H end.
    cbv zeta in *. set (q := vsub p v) in *. rewrite (dot_vsub_l q h h) in *. fold (norm2 h) in *.
    exists (dot q h / norm2 h), (vsub q (vmul (dot q h / norm2 h) h)).
    split; [|split; [|split]].
    + split; [apply Rdiv_lt_0_compat; lra|].
      apply (Rmult_lt_reg_r (norm2 h)); [lra|]. unfold Rdiv. rewrite Rmult_assoc, Rinv_l; lra.
    + rewrite dot_vsub_l, dot_vmul_l. fold (norm2 h). field. lra.
    + unfold perp2, sqr in *. unfold norm2 at 1.
      rewrite dot_vsub_l, !dot_vsub_r, !dot_vmul_l, !dot_vmul_r.
      fold (norm2 h) (norm2 q). rewrite (dot_comm h q).
      match goal with |- ?L < _ =>
        replace L with (norm2 q - dot q h * dot q h / norm2 h) by (field; lra) end. lra.
    + subst q. destruct p as [[p1 p2] p3], v as [[v1 v2] v3], h as [[h1 h2] h3].
      unfold vadd, vsub, vmul. apply pair3; ring.
Qed.

Lemma ortho_det_nonzero (a b c : pt) :
  dot a b = 0 -> dot a c = 0 -> dot b c = 0 ->
  a <> (0, 0, 0) -> b <> (0, 0, 0) -> c <> (0, 0, 0) -> det a b c <> 0.
Proof.
  intros Hab Hac Hbc Ha Hb Hc.
  pose proof (norm2_pos a Ha). pose proof (norm2_pos b Hb). pose proof (norm2_pos c Hc).
  pose proof (gram b c a) as G. fold (det a b c) in G.
  rewrite Hbc, (dot_comm c a), Hac, Hab in G. intros E. rewrite E in G.
  assert (0 < norm2 a * norm2 b * norm2 c) by (repeat apply Rmult_lt_0_compat; assumption).
  lra.
Qed.

Lemma rec_inside_facets (v h a1 a2 : pt) (p : pt) :
  dot h a1 = 0 -> dot h a2 = 0 -> dot a1 a2 = 0 ->
  h <> (0, 0, 0) -> a1 <> (0, 0, 0) -> a2 <> (0, 0, 0) ->
  (rec_inside v h a1 a2 p <-> inside_of (rec_facets v h a1 a2) p).
Proof.
  intros H1 H2 H12 Hh Ha1 Ha2.
  pose proof (norm2_pos h Hh) as Nh. pose proof (norm2_pos a1 Ha1) as N1.
  pose proof (norm2_pos a2 Ha2) as N2.
  pose proof (ortho_det_nonzero h a1 a2 H1 H2 H12 Hh Ha1 Ha2) as HD.
  assert (H1' : dot a1 h = 0) by now rewrite dot_comm.
  assert (H2' : dot a2 h = 0) by now rewrite dot_comm.
  assert (H21 : dot a2 a1 = 0) by now rewrite dot_comm.
  unfold rec_inside, inside_of, rec_facets, ellcyl, plane_end, plane_begin. split.
  - intros (t & x & y & Ht & Hxy & ->).
    assert (E : forall w, dot (vsub (vadd v (vadd (vmul t h) (vadd (vmul x a1) (vmul y a2)))) v) w
                          = t * dot h w + x * dot a1 w + y * dot a2 w).
    { intros w. rewrite dot_vsub_l, !dot_vadd_l, !dot_vmul_l. ring. }
    apply Forall_cons; [|apply Forall_cons; [|apply Forall_cons; [|apply Forall_nil]]];
      cbv beta zeta; rewrite ?(dot_vsub_l _ h h), !E; rewrite ?H1, ?H2, ?H12, ?H1', ?H2', ?H21;
      fold (norm2 h) (norm2 a1) (norm2 a2).
    + unfold sqr.
      replace ((t * 0 + x * norm2 a1 + y * 0) / norm2 a1) with x by (field; lra).
      replace ((t * 0 + x * 0 + y * norm2 a2) / norm2 a2) with y by (field; lra). lra.
    + nra.
    + nra.
  - intros H. repeat match goal with H : Forall _ (_ :: _) |- _ => inversion_clear H end.
    cbv zeta in *. set (q := vsub p v) in *. rewrite (dot_vsub_l q h h) in *. fold (norm2 h) in *.
    exists (dot q h / norm2 h), (dot q a1 / norm2 a1), (dot q a2 / norm2 a2).
    split; [|split].
    + split; [apply Rdiv_lt_0_compat; lra|].
      apply (Rmult_lt_reg_r (norm2 h)); [lra|]. unfold Rdiv. rewrite Rmult_assoc, Rinv_l; lra.
    + unfold sqr in *. lra.
    + pose proof (ortho_decompose h a1 a2 q H1 H2 H12 HD) as E.
      rewrite <- E. subst q. destruct p as [[p1 p2] p3], v as [[v1 v2] v3].
      unfold vadd, vsub. apply pair3; ring.
Qed.
