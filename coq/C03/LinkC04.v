(* C03 <- C04.  The written-surface theorems of C03 take a transformation with
   an orthogonal matrix (tr_ok).  C04 proves what the converter makes of a TR
   card / an inline TRCL or FILL transformation (tr_card, parse_trcl,
   parse_fill_tr): for a well-formed card, the twelve numbers of the card.
   Here those twelve numbers are read as C03's transformation and shown to be
   orthogonal, with the same auxiliary frame p -> B (p - O) as C04's Spec.
   C04's files are imported read-only and referred to by qualified names. *)
From Coq Require Import List ZArith Bool Reals Lra.
From T4V Require Import Base.Scalar C03.Vec C03.Model C03.Convert C03.Spec C03.SpecT4.
From T4V Require C04.Vec C04.Model C04.Spec C04.ProofsMatrix C04.ProofsCard.
Import ListNotations.
Open Scope R_scope.

Module V4 := T4V.C04.Vec.
Module M4 := T4V.C04.Model.
Module S4 := T4V.C04.Spec.

(* C04's vectors and matrices as C03's tuples *)
Definition pt_of (v : S4.R3) : pt := (V4.vx v, V4.vy v, V4.vz v).
Definition v4_of (p : pt) : S4.R3 := let '(x, y, z) := p in V4.mkV x y z.
Definition transf_of_c04 (o : S4.R3) (b : V4.M3 R) : rtransf :=
  (pt_of o, pt_of (V4.vx b), pt_of (V4.vy b), pt_of (V4.vz b)).

(* the normalised 12-number transformation (what get_mcnp_transforms stores
   and pot_transform / to_surface_mcnp receive) read as C03's transformation *)
Definition transf_of_list (l : list R) : option rtransf :=
  match l with
  | [o1; o2; o3; b1; b2; b3; b4; b5; b6; b7; b8; b9] =>
      Some ((o1, o2, o3), (b1, b2, b3), (b4, b5, b6), (b7, b8, b9))
  | _ => None
  end.

Lemma transf_of_list_c04 (o : S4.R3) (b : V4.M3 R) :
  transf_of_list (V4.vlist o ++ V4.mlist b) = Some (transf_of_c04 o b).
Proof. destruct o as [o1 o2 o3], b as [[b1 b2 b3] [b4 b5 b6] [b7 b8 b9]]. reflexivity. Qed.

(* orthonormal rows (C04) -> rows and columns orthonormal (C03's tr_ok), by
   C04's cols_orthonormal *)
Lemma orthogonal_of_c04 (o : S4.R3) (b : V4.M3 R) :
  S4.rows_orthonormal b -> orthogonal (transf_of_c04 o b).
Proof.
  intros Hr. pose proof (T4V.C04.ProofsMatrix.cols_orthonormal b Hr) as Hc.
  destruct o as [o1 o2 o3], b as [[b1 b2 b3] [b4 b5 b6] [b7 b8 b9]].
  unfold S4.rows_orthonormal, V4.transpose, S4.dot in *. cbn in Hr, Hc.
  destruct Hr as (R1 & R2 & R3 & R4 & R5 & R6). destruct Hc as (C1 & C2 & C3 & C4 & C5 & C6).
  unfold orthogonal, transf_of_c04, pt_of. cbn [V4.vx V4.vy V4.vz].
  repeat split; lra.
Qed.

(* the two Specs mean the same auxiliary frame *)
Lemma to_aux_c04 (o : S4.R3) (b : V4.M3 R) (p : pt) :
  to_aux (transf_of_c04 o b) p = pt_of (S4.to_aux o b (v4_of p)).
Proof.
  destruct o as [o1 o2 o3], b as [[b1 b2 b3] [b4 b5 b6] [b7 b8 b9]], p as [[x y] z].
  reflexivity.
Qed.

(* ---- well-formed transformation sources (C04's theorems) ---- *)
(* a TR card with 12 (or 13, m = 1) entries whose matrix has orthonormal rows
   and no entry in (0, 1e-10) (clip_ok_m), unstarred or starred (angles in
   degrees); a TR card with 3 entries; an inline TRCL / FILL with 12 entries *)
Definition card_gives (l : list R) (o : S4.R3) (b : V4.M3 R) : Prop :=
  S4.rows_orthonormal b /\
  ( (T4V.C04.ProofsMatrix.clip_ok_m b /\
     (M4.tr_card RS false (map Some (V4.vlist o ++ V4.mlist b)) = M4.Ok l \/
      M4.tr_card RS false (map Some (V4.vlist o ++ V4.mlist b ++ [1])) = M4.Ok l \/
      (exists trs trid, M4.parse_trcl RS false (V4.vlist o ++ V4.mlist b) trs trid = M4.Ok l) \/
      (exists trs trid, M4.parse_trcl RS false (V4.vlist o ++ V4.mlist b ++ [1]) trs trid = M4.Ok l) \/
      (exists trs trid, M4.parse_fill_tr RS false (V4.vlist o ++ V4.mlist b) trs trid = M4.Ok l)))
    \/
    (T4V.C04.ProofsMatrix.clip_ok_m b /\
     exists ang : V4.M3 R,
       b = V4.vmap (V4.vmap (fun a => cos (a * PI / 180))) ang /\
       (M4.tr_card RS true (map Some (V4.vlist o ++ V4.mlist ang)) = M4.Ok l \/
        M4.tr_card RS true (map Some (V4.vlist o ++ V4.mlist ang ++ [1])) = M4.Ok l))
    \/
    (b = V4.idm RS /\ exists star, M4.tr_card RS star (map Some (V4.vlist o)) = M4.Ok l) ).

Theorem card_transformation (l : list R) (o : S4.R3) (b : V4.M3 R) :
  card_gives l o b ->
  transf_of_list l = Some (transf_of_c04 o b) /\ orthogonal (transf_of_c04 o b).
Proof.
  intros (Hr & H). split; [|now apply orthogonal_of_c04].
  assert (E : l = V4.vlist o ++ V4.mlist b); [|rewrite E; apply transf_of_list_c04].
  destruct H as [(Hc & H) | [(Hc & ang & -> & H) | (-> & star & H)]].
  - pose proof (T4V.C04.ProofsCard.tr_card_12 o b Hr Hc) as (E1 & E2).
    destruct H as [H | [H | [(trs & trid & H) | [(trs & trid & H) | (trs & trid & H)]]]];
      try (pose proof (T4V.C04.ProofsCard.inline_12 o b trs trid Hr Hc) as (I1 & I2 & I3));
      congruence.
  - pose proof (T4V.C04.ProofsCard.tr_card_star_12 o ang Hr Hc) as (E1 & E2).
    destruct H as [H | H]; congruence.
  - pose proof (T4V.C04.ProofsCard.tr_card_3 star o) as E1. congruence.
Qed.
