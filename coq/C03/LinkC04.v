(* C03 <- C04.  The written-surface theorems of C03 take a transformation with
   an orthogonal matrix (tr_ok).  C04 proves what the converter makes of a TR
   card / an inline TRCL or FILL transformation (tr_card, parse_trcl,
   parse_fill_tr): for a well-formed card, the twelve numbers of the card.
   Here those twelve numbers are read as C03's transformation and shown to be
   orthogonal, with the same auxiliary frame p -> B (p - O) as C04's Spec.
   C04's files are imported read-only and referred to by qualified names. *)
From Coq Require Import List ZArith Bool Reals Lra.
From T4V Require Import Base.Scalar C03.Vec C03.Model C03.Convert C03.Spec C03.SpecT4.
From T4V Require C04.Vec C04.Model C04.Spec C04.ProofsMatrix C04.ProofsMatrix5 C04.ProofsCard.
Import ListNotations.
Open Scope R_scope.

Module V4 := T4V.C04.Vec.
Module M4 := T4V.C04.Model.
Module S4 := T4V.C04.Spec.

(* C04's vectors and matrices as C03's tuples *)
Definition pt_of (v : S4.R3) : pt := (V4.vx v, V4.vy v, V4.vz v).
Definition v4_of (p : pt) : S4.R3 := let '(x, y, z) := p in V4.mkV x y z.
Definition transf_of_c04 (o : S4.R3) (b : V4.M3 R) : rtransf :=
  (pt_of o, pt_of (V4.vx b), pt_of (V4.vy b), pt_of (V4.vz b)).

(* the normalised 12-number transformation (what get_mcnp_transforms stores
   and pot_transform / to_surface_mcnp receive) read as C03's transformation *)
Definition transf_of_list (l : list R) : option rtransf :=
  match l with
  | [o1; o2; o3; b1; b2; b3; b4; b5; b6; b7; b8; b9] =>
      Some ((o1, o2, o3), (b1, b2, b3), (b4, b5, b6), (b7, b8, b9))
  | _ => None
  end.

Lemma transf_of_list_c04 (o : S4.R3) (b : V4.M3 R) :
  transf_of_list (V4.vlist o ++ V4.mlist b) = Some (transf_of_c04 o b).
Proof. destruct o as [o1 o2 o3], b as [[b1 b2 b3] [b4 b5 b6] [b7 b8 b9]]. reflexivity. Qed.

(* orthonormal rows (C04) -> rows and columns orthonormal (C03's tr_ok), by
   C04's cols_orthonormal *)
Lemma orthogonal_of_c04 (o : S4.R3) (b : V4.M3 R) :
  S4.rows_orthonormal b -> orthogonal (transf_of_c04 o b).
Proof.
  intros Hr. pose proof (T4V.C04.ProofsMatrix.cols_orthonormal b Hr) as Hc.
  destruct o as [o1 o2 o3], b as [[b1 b2 b3] [b4 b5 b6] [b7 b8 b9]].
  unfold S4.rows_orthonormal, V4.transpose, S4.dot in *. cbn in Hr, Hc.
  destruct Hr as (R1 & R2 & R3 & R4 & R5 & R6). destruct Hc as (C1 & C2 & C3 & C4 & C5 & C6).
  unfold orthogonal, transf_of_c04, pt_of. cbn [V4.vx V4.vy V4.vz].
  repeat split; lra.
Qed.

(* the two Specs mean the same auxiliary frame *)
Lemma to_aux_c04 (o : S4.R3) (b : V4.M3 R) (p : pt) :
  to_aux (transf_of_c04 o b) p = pt_of (S4.to_aux o b (v4_of p)).
Proof.
  destruct o as [o1 o2 o3], b as [[b1 b2 b3] [b4 b5 b6] [b7 b8 b9]], p as [[x y] z].
  reflexivity.
Qed.

(* ---- abbreviated matrices (J placeholders): C04 proves what normalize_matrix
   makes of them (C04_normalize_matrix_{6,6_cols,3,3_cols,5}_reproduces: a proper
   rotation b agreeing with every supplied entry) and that adjust_matrix leaves
   an orthonormal clipped matrix alone; together, the card's transformation ---- *)
Theorem abbreviated_card (o : S4.R3) (pat : V4.M3 (option R)) (b : V4.M3 R) :
  M4.normalize_matrix RS (V4.mlist pat) = M4.Ok (V4.mlist b) ->
  S4.rows_orthonormal b -> T4V.C04.ProofsMatrix.clip_ok_m b ->
  M4.tr_card RS false (map Some (V4.vlist o) ++ V4.mlist pat) = M4.Ok (V4.vlist o ++ V4.mlist b).
Proof.
  intros E9 Hb Hc. pose proof (T4V.C04.ProofsMatrix.adjust_matrix_fixpoint b Hb Hc) as Ea.
  destruct o as [o1 o2 o3], pat as [[p1 p2 p3] [p4 p5 p6] [p7 p8 p9]],
           b as [[b1 b2 b3] [b4 b5 b6] [b7 b8 b9]].
  unfold M4.tr_card, M4.mip_normalize.
  cbv [V4.mlist V4.vlist V4.vx V4.vy V4.vz app map] in E9, Ea |- *.
  cbn [List.length Nat.eqb]. unfold M4.normalize_transform.
  cbn [List.length Nat.eqb andb firstn skipn]. rewrite E9. cbn [M4.bind].
  rewrite Ea. cbn [M4.bind M4.values M4.rmap app]. reflexivity.
Qed.

(* ---- well-formed transformation sources (C04's theorems) ---- *)
(* a TR card with 12 (or 13, m = 1) entries whose matrix has orthonormal rows
   and no entry in (0, 1e-10) (clip_ok_m), unstarred or starred (angles in
   degrees); a TR card with 3 entries; an inline TRCL / FILL with 12 entries; a TR
   card whose matrix is abbreviated with J placeholders and completed by
   normalize_matrix to b *)
Definition card_gives (l : list R) (o : S4.R3) (b : V4.M3 R) : Prop :=
  S4.rows_orthonormal b /\
  ( (T4V.C04.ProofsMatrix.clip_ok_m b /\
     (M4.tr_card RS false (map Some (V4.vlist o ++ V4.mlist b)) = M4.Ok l \/
      M4.tr_card RS false (map Some (V4.vlist o ++ V4.mlist b ++ [1])) = M4.Ok l \/
      (exists trs trid, M4.parse_trcl RS false (V4.vlist o ++ V4.mlist b) trs trid = M4.Ok l) \/
      (exists trs trid, M4.parse_trcl RS false (V4.vlist o ++ V4.mlist b ++ [1]) trs trid = M4.Ok l) \/
      (exists trs trid, M4.parse_fill_tr RS false (V4.vlist o ++ V4.mlist b) trs trid = M4.Ok l)))
    \/
    (T4V.C04.ProofsMatrix.clip_ok_m b /\
     exists ang : V4.M3 R,
       b = V4.vmap (V4.vmap (fun a => cos (a * PI / 180))) ang /\
       (M4.tr_card RS true (map Some (V4.vlist o ++ V4.mlist ang)) = M4.Ok l \/
        M4.tr_card RS true (map Some (V4.vlist o ++ V4.mlist ang ++ [1])) = M4.Ok l))
    \/
    (b = V4.idm RS /\ exists star, M4.tr_card RS star (map Some (V4.vlist o)) = M4.Ok l)
    \/
    (* abbreviated matrix: pat holds the supplied entries, None for a J *)
    (T4V.C04.ProofsMatrix.clip_ok_m b /\
     exists pat : V4.M3 (option R),
       M4.normalize_matrix RS (V4.mlist pat) = M4.Ok (V4.mlist b) /\
       M4.tr_card RS false (map Some (V4.vlist o) ++ V4.mlist pat) = M4.Ok l) ).

Theorem card_transformation (l : list R) (o : S4.R3) (b : V4.M3 R) :
  card_gives l o b ->
  transf_of_list l = Some (transf_of_c04 o b) /\ orthogonal (transf_of_c04 o b).
Proof.
  intros (Hr & H). split; [|now apply orthogonal_of_c04].
  assert (E : l = V4.vlist o ++ V4.mlist b); [|rewrite E; apply transf_of_list_c04].
  destruct H as [(Hc & H) | [(Hc & ang & -> & H) | [(-> & star & H) | (Hc & pat & E9 & H)]]].
  - pose proof (T4V.C04.ProofsCard.tr_card_12 o b Hr Hc) as (E1 & E2).
    destruct H as [H | [H | [(trs & trid & H) | [(trs & trid & H) | (trs & trid & H)]]]];
      try (pose proof (T4V.C04.ProofsCard.inline_12 o b trs trid Hr Hc) as (I1 & I2 & I3));
      congruence.
  - pose proof (T4V.C04.ProofsCard.tr_card_star_12 o ang Hr Hc) as (E1 & E2).
    destruct H as [H | H]; congruence.
  - pose proof (T4V.C04.ProofsCard.tr_card_3 star o) as E1. congruence.
  - pose proof (abbreviated_card o pat b E9 Hr Hc) as E1. congruence.
Qed.

(* non-vacuity: the card  TR  1 -2 0.5   0.6 0.8 0  -0.8 0.6 0  0 0 1 *)
Example card_gives_example :
  let o := V4.mkV 1 (-2) (1 / 2) in
  let b := V4.mkV (V4.mkV (3 / 5) (4 / 5) 0) (V4.mkV (- 4 / 5) (3 / 5) 0) (V4.mkV 0 0 1) in
  card_gives (V4.vlist o ++ V4.mlist b) o b.
Proof.
  cbv zeta.
  assert (Hr : S4.rows_orthonormal
                 (V4.mkV (V4.mkV (3 / 5) (4 / 5) 0) (V4.mkV (- 4 / 5) (3 / 5) 0) (V4.mkV 0 0 1))).
  { unfold S4.rows_orthonormal, S4.dot. cbn. repeat split; field. }
  assert (Hc : T4V.C04.ProofsMatrix.clip_ok_m
                 (V4.mkV (V4.mkV (3 / 5) (4 / 5) 0) (V4.mkV (- 4 / 5) (3 / 5) 0) (V4.mkV 0 0 1))).
  { unfold T4V.C04.ProofsMatrix.clip_ok_m, T4V.C04.ProofsMatrix.clip_ok3, T4V.C04.ProofsMatrix.clip_ok.
    cbn.
    assert (K : forall x, x = 0 \/ 1 / 2 <= x \/ x <= - (1 / 2) ->
                          x = 0 \/ / 10000000000 <= Rabs x).
    { intros x [H | [H | H]]; [now left | right; rewrite Rabs_right by lra; lra
                               | right; rewrite Rabs_left by lra; lra]. }
    split; [|split]; (split; [|split]); apply K; lra. }
  split; [exact Hr|]. left. split; [exact Hc|]. left.
  apply (T4V.C04.ProofsCard.tr_card_12 _ _ Hr Hc).
Qed.

Theorem abbreviated_card_transformation (o : S4.R3) (pat : V4.M3 (option R)) (b : V4.M3 R) :
  M4.normalize_matrix RS (V4.mlist pat) = M4.Ok (V4.mlist b) ->
  S4.rotation b -> T4V.C04.ProofsMatrix.clip_ok_m b ->
  exists l, M4.tr_card RS false (map Some (V4.vlist o) ++ V4.mlist pat) = M4.Ok l /\
            transf_of_list l = Some (transf_of_c04 o b) /\ orthogonal (transf_of_c04 o b).
Proof.
  intros E9 (Hb & _) Hc. exists (V4.vlist o ++ V4.mlist b).
  split; [now apply abbreviated_card|]. split; [apply transf_of_list_c04 | now apply orthogonal_of_c04].
Qed.

(* e.g. a card giving only two rows of the matrix (six entries, three J): by
   C04_normalize_matrix_6_reproduces the completed matrix is a proper rotation
   that keeps the supplied rows, and the card's transformation is well formed *)
Theorem six_entry_card (i : nat) (o r0 r1 : S4.R3) :
  (i < 3)%nat -> S4.norm2 r0 = 1 -> S4.norm2 r1 = 1 -> S4.dot r0 r1 = 0 ->
  let pat := M4.place3 i T4V.C04.ProofsMatrix.none3 (T4V.C04.ProofsMatrix.somev r0) (T4V.C04.ProofsMatrix.somev r1) in
  exists b, S4.rotation b /\ S4.agrees pat b /\
    (T4V.C04.ProofsMatrix.clip_ok_m b -> card_gives (V4.vlist o ++ V4.mlist b) o b).
Proof.
  intros Hi H0 H1 H01 pat.
  destruct (T4V.C04.ProofsMatrix.normalize_matrix_6_rows i r0 r1 Hi H0 H1 H01) as (b & E & Hrot & Hag).
  exists b. split; [exact Hrot|]. split; [exact Hag|]. intros Hc.
  split; [exact (proj1 Hrot)|]. right. right. right. split; [exact Hc|].
  exists pat. split; [exact E|]. apply abbreviated_card; [exact E | exact (proj1 Hrot) | exact Hc].
Qed.

(* ================= round 3: the remaining transformation sources ============ *)
(* whatever the source, once the converter's twelve numbers are o ++ b with an
   orthonormal clipped b, card_gives holds (the plain 12-entry card gives them) *)
Lemma card_gives_canonical (o : S4.R3) (b : V4.M3 R) :
  S4.rows_orthonormal b -> T4V.C04.ProofsMatrix.clip_ok_m b ->
  card_gives (V4.vlist o ++ V4.mlist b) o b.
Proof.
  intros Hr Hc. split; [exact Hr|]. left. split; [exact Hc|]. left.
  apply (T4V.C04.ProofsCard.tr_card_12 _ _ Hr Hc).
Qed.

(* generic: from a C04 "reproduces" statement to the card *)
Lemma abbreviated_from_reproduces (o : S4.R3) (pat : V4.M3 (option R)) :
  (exists b, M4.normalize_matrix RS (V4.mlist pat) = M4.Ok (V4.mlist b) /\ S4.rotation b /\
             S4.agrees pat b) ->
  exists b, S4.rotation b /\ S4.agrees pat b /\
    (T4V.C04.ProofsMatrix.clip_ok_m b ->
     M4.tr_card RS false (map Some (V4.vlist o) ++ V4.mlist pat) = M4.Ok (V4.vlist o ++ V4.mlist b) /\
     card_gives (V4.vlist o ++ V4.mlist b) o b).
Proof.
  intros (b & E & Hrot & Hag). exists b. split; [exact Hrot|]. split; [exact Hag|]. intros Hc.
  split; [apply abbreviated_card; [exact E | exact (proj1 Hrot) | exact Hc]|].
  apply card_gives_canonical; [exact (proj1 Hrot) | exact Hc].
Qed.

(* two COLUMNS given (six entries) *)
Theorem six_entry_cols_card (i : nat) (o c0 c1 : S4.R3) :
  (i < 3)%nat -> S4.norm2 c0 = 1 -> S4.norm2 c1 = 1 -> S4.dot c0 c1 = 0 ->
  let pat := V4.transpose (M4.place3 i T4V.C04.ProofsMatrix.none3 (T4V.C04.ProofsMatrix.somev c0)
                                     (T4V.C04.ProofsMatrix.somev c1)) in
  exists b, S4.rotation b /\ S4.agrees pat b /\
    (T4V.C04.ProofsMatrix.clip_ok_m b ->
     M4.tr_card RS false (map Some (V4.vlist o) ++ V4.mlist pat) = M4.Ok (V4.vlist o ++ V4.mlist b) /\
     card_gives (V4.vlist o ++ V4.mlist b) o b).
Proof.
  intros Hi H0 H1 H01 pat. apply abbreviated_from_reproduces.
  exact (T4V.C04.ProofsMatrix.normalize_matrix_6_cols i c0 c1 Hi H0 H1 H01).
Qed.

(* one unit ROW / one unit COLUMN given (three entries) *)
Theorem three_entry_row_card (i : nat) (o r : S4.R3) :
  (i < 3)%nat -> S4.norm2 r = 1 ->
  let pat := M4.place3 i (T4V.C04.ProofsMatrix.somev r) T4V.C04.ProofsMatrix.none3
                       T4V.C04.ProofsMatrix.none3 in
  exists b, S4.rotation b /\ S4.agrees pat b /\
    (T4V.C04.ProofsMatrix.clip_ok_m b ->
     M4.tr_card RS false (map Some (V4.vlist o) ++ V4.mlist pat) = M4.Ok (V4.vlist o ++ V4.mlist b) /\
     card_gives (V4.vlist o ++ V4.mlist b) o b).
Proof.
  intros Hi H0 pat. apply abbreviated_from_reproduces.
  exact (T4V.C04.ProofsMatrix.normalize_matrix_3_rows i r Hi H0).
Qed.

Theorem three_entry_col_card (i : nat) (o c : S4.R3) :
  (i < 3)%nat -> S4.norm2 c = 1 ->
  let pat := V4.transpose (M4.place3 i (T4V.C04.ProofsMatrix.somev c) T4V.C04.ProofsMatrix.none3
                                     T4V.C04.ProofsMatrix.none3) in
  exists b, S4.rotation b /\ S4.agrees pat b /\
    (T4V.C04.ProofsMatrix.clip_ok_m b ->
     M4.tr_card RS false (map Some (V4.vlist o) ++ V4.mlist pat) = M4.Ok (V4.vlist o ++ V4.mlist b) /\
     card_gives (V4.vlist o ++ V4.mlist b) o b).
Proof.
  intros Hi H0 pat. apply abbreviated_from_reproduces.
  exact (T4V.C04.ProofsMatrix.normalize_matrix_3_cols i c Hi H0).
Qed.

(* five entries: one unit row and one unit column sharing their common entry
   (Eulerian completion) *)
Theorem five_entry_card (ir ic : nat) (o row col : S4.R3) :
  (ir < 3)%nat -> (ic < 3)%nat -> S4.norm2 row = 1 -> S4.norm2 col = 1 ->
  V4.vget ic row = V4.vget ir col ->
  let pat := T4V.C04.ProofsMatrix5.pat5 ir ic row col in
  exists b, S4.rotation b /\ S4.agrees pat b /\
    (T4V.C04.ProofsMatrix.clip_ok_m b ->
     M4.tr_card RS false (map Some (V4.vlist o) ++ V4.mlist pat) = M4.Ok (V4.vlist o ++ V4.mlist b) /\
     card_gives (V4.vlist o ++ V4.mlist b) o b).
Proof.
  intros Hir Hic Hr Hc Hs pat. apply abbreviated_from_reproduces.
  exact (T4V.C04.ProofsMatrix5.normalize_matrix_5 ir ic row col Hir Hic Hr Hc Hs).
Qed.

(* FILL=u (n): the universe is placed by the transformation of card n *)
Theorem fill_by_number (l : list R) (o : S4.R3) (b : V4.M3 R) star (n : R) trs trid :
  card_gives l o b -> M4.lookup trid trs = M4.Ok l ->
  M4.parse_fill_tr RS star [n] trs trid = M4.Ok l.
Proof.
  intros Hc Hl. destruct (card_transformation l o b Hc) as (E & _).
  destruct l as [|? [|? [|? [|? [|? [|? [|? [|? [|? [|? [|? [|? [|? ?]]]]]]]]]]]]]; try discriminate.
  unfold M4.parse_fill_tr, M4.parse_kw_tr. cbn [List.length]. rewrite Hl. reflexivity.
Qed.

(* starred inline forms *TRCL=(o angles) and *FILL=u (o angles): the cosines *)
Theorem starred_inline (o : S4.R3) (ang : V4.M3 R) trs trid :
  let b := V4.vmap (V4.vmap (fun a => cos (a * PI / 180))) ang in
  S4.rows_orthonormal b -> T4V.C04.ProofsMatrix.clip_ok_m b ->
  M4.parse_trcl RS true (V4.vlist o ++ V4.mlist ang) trs trid = M4.Ok (V4.vlist o ++ V4.mlist b) /\
  M4.parse_fill_tr RS true (V4.vlist o ++ V4.mlist ang) trs trid = M4.Ok (V4.vlist o ++ V4.mlist b) /\
  card_gives (V4.vlist o ++ V4.mlist b) o b.
Proof.
  intros b Hr Hc.
  pose proof (T4V.C04.ProofsCard.normalize_transform_12 o b Hr Hc) as E.
  assert (K : forall flag, M4.parse_kw_tr RS flag true (V4.vlist o ++ V4.mlist ang) trs trid
                           = M4.Ok (V4.vlist o ++ V4.mlist b)).
  { intros flag. rewrite <- E. subst b.
    destruct o as [o1 o2 o3], ang as [[a1 a2 a3] [a4 a5 a6] [a7 a8 a9]].
    unfold M4.parse_kw_tr.
    cbv [V4.mlist V4.vlist V4.vmap V4.vx V4.vy V4.vz app List.length firstn skipn map].
    rewrite !T4V.C04.ProofsCard.to_cos_deg. reflexivity. }
  split; [apply K|]. split; [apply K|]. now apply card_gives_canonical.
Qed.

(* ================= round 4: starred cards with an abbreviated matrix ======== *)
(* *TRn o <angles with J placeholders>: MIP's normalize_transform turns every
   supplied angle into its cosine (to_cos) and leaves the J's; the card then
   behaves as the unstarred card on the cosine pattern, so every
   C04_normalize_matrix_*_reproduces theorem applies to it *)
Definition cos_pattern (apat : V4.M3 (option R)) : V4.M3 (option R) :=
  V4.vmap (V4.vmap (option_map (M4.to_cos RS))) apat.

Theorem starred_abbreviated_card (o : S4.R3) (apat : V4.M3 (option R)) (b : V4.M3 R) :
  M4.normalize_matrix RS (V4.mlist (cos_pattern apat)) = M4.Ok (V4.mlist b) ->
  S4.rows_orthonormal b -> T4V.C04.ProofsMatrix.clip_ok_m b ->
  M4.tr_card RS true (map Some (V4.vlist o) ++ V4.mlist apat) = M4.Ok (V4.vlist o ++ V4.mlist b) /\
  card_gives (V4.vlist o ++ V4.mlist b) o b.
Proof.
  intros E9 Hb Hc. split; [|now apply card_gives_canonical].
  pose proof (T4V.C04.ProofsMatrix.adjust_matrix_fixpoint b Hb Hc) as Ea.
  destruct o as [o1 o2 o3], apat as [[p1 p2 p3] [p4 p5 p6] [p7 p8 p9]],
           b as [[b1 b2 b3] [b4 b5 b6] [b7 b8 b9]].
  unfold M4.tr_card, M4.mip_normalize, cos_pattern in *.
  cbv [V4.mlist V4.vlist V4.vmap V4.vx V4.vy V4.vz app map] in E9, Ea |- *.
  cbn [List.length Nat.eqb firstn skipn map app]. unfold M4.normalize_transform.
  cbn [List.length Nat.eqb andb firstn skipn app]. rewrite E9. cbn [M4.bind].
  rewrite Ea. cbn [M4.bind M4.values M4.rmap app]. reflexivity.
Qed.
