(* C03 — parse_facet: the decimal digits of an ARB facet descriptor, zeros
   dropped, each minus one, most significant first. *)
From Coq Require Import List ZArith NArith Bool Lia.
From T4V Require Import C03.Model.
Import ListNotations.
Open Scope N_scope.

(* the number written with the decimal digits ds (most significant first) *)
Definition of_digits (ds : list N) : N := fold_left (fun acc d => 10 * acc + d) ds 0.

Definition vertex_numbers (ds : list N) : list nat :=
  map (fun d => (N.to_nat d - 1)%nat) (filter (fun d => negb (d =? 0)) ds).

Lemma of_digits_snoc ds d : of_digits (ds ++ [d]) = 10 * of_digits ds + d.
Proof. unfold of_digits. now rewrite fold_left_app. Qed.

(* enough fuel: one more changes nothing *)
Lemma digits_fuel (fuel : nat) : forall n, n < 2 ^ N.of_nat fuel ->
  forall extra, digits_lsf (fuel + extra) n = digits_lsf fuel n.
Proof.
  induction fuel as [|f IH]; intros n Hn extra.
  - change (2 ^ N.of_nat 0) with 1 in Hn. assert (n = 0) by lia. subst.
    destruct extra; reflexivity.
  - cbn [Nat.add digits_lsf]. destruct (n =? 0) eqn:E; [reflexivity|].
    apply N.eqb_neq in E.
    assert (H : n / 10 < 2 ^ N.of_nat f).
    { rewrite Nat2N.inj_succ, N.pow_succ_r' in Hn.
      apply N.div_lt_upper_bound; lia. }
    now rewrite (IH _ H extra).
Qed.

Lemma size_bound n : n < 2 ^ N.of_nat (N.size_nat n).
Proof.
  destruct n as [|p]; [reflexivity|]. cbn [N.size_nat].
  induction p as [p IH|p IH|]; cbn [Pos.size_nat].
  - rewrite Nat2N.inj_succ, N.pow_succ_r'. lia.
  - rewrite Nat2N.inj_succ, N.pow_succ_r'. lia.
  - reflexivity.
Qed.

Lemma digits_any_fuel (n : N) (fuel : nat) :
  (N.size_nat n <= fuel)%nat -> digits_lsf fuel n = digits_lsf (N.size_nat n) n.
Proof.
  intros H. replace fuel with (N.size_nat n + (fuel - N.size_nat n))%nat by lia.
  apply digits_fuel. apply size_bound.
Qed.

(* parse_facet written as a recursion on the number itself *)
Lemma parse_facet_step (n d : N) :
  d < 10 -> 10 * n + d <> 0 ->
  parse_facet (10 * n + d) =
  parse_facet n ++ (if d =? 0 then [] else [(N.to_nat d - 1)%nat]).
Proof.
  intros Hd Hnz. unfold parse_facet.
  set (m := 10 * n + d).
  assert (Hdiv : m / 10 = n).
  { unfold m. rewrite N.mul_comm, N.div_add_l by lia. rewrite N.div_small by lia. lia. }
  assert (Hmod : m mod 10 = d).
  { unfold m. rewrite N.add_comm, N.mul_comm, N.mod_add by lia. now apply N.mod_small. }
  destruct (N.size_nat m) as [|f] eqn:Ef.
  { pose proof (size_bound m) as B. rewrite Ef in B. change (2 ^ N.of_nat 0) with 1 in B. lia. }
  cbn [digits_lsf]. destruct (m =? 0) eqn:E0; [apply N.eqb_eq in E0; contradiction|].
  rewrite Hdiv, Hmod.
  assert (Hf : digits_lsf f n = digits_lsf (N.size_nat n) n).
  { apply digits_any_fuel.
    assert (n < 2 ^ N.of_nat f).
    { pose proof (size_bound m) as B. rewrite Ef, Nat2N.inj_succ, N.pow_succ_r' in B. lia. }
    (* size_nat n <= f because n < 2^f *)
    destruct (Nat.le_gt_cases (N.size_nat n) f) as [L|L]; [exact L|exfalso].
    assert (G : forall k x, (k < N.size_nat x)%nat -> 2 ^ N.of_nat k <= x).
    { clear. intros k x. destruct x as [|p]; cbn [N.size_nat]; [lia|].
      revert k. induction p as [p IH|p IH|]; cbn [Pos.size_nat]; intros k Hk.
      - destruct k; [cbn; lia|]. rewrite Nat2N.inj_succ, N.pow_succ_r'.
        assert (2 ^ N.of_nat k <= N.pos p) by (apply IH; lia). lia.
      - destruct k; [cbn; lia|]. rewrite Nat2N.inj_succ, N.pow_succ_r'.
        assert (2 ^ N.of_nat k <= N.pos p) by (apply IH; lia). lia.
      - assert (k = 0%nat) by lia. subst. cbn. lia. }
    specialize (G f n L). lia. }
  rewrite Hf. destruct (d =? 0); cbn [rev]; [now rewrite app_nil_r | reflexivity].
Qed.

Lemma parse_facet_zero : parse_facet 0 = [].
Proof. reflexivity. Qed.

(* for every digit string (any length, zeros anywhere) *)
Theorem parse_facet_digits (ds : list N) :
  Forall (fun d => d < 10) ds ->
  parse_facet (of_digits ds) = vertex_numbers ds.
Proof.
  induction ds as [|d ds IH] using rev_ind; intros H; [reflexivity|].
  apply Forall_app in H. destruct H as [H1 H2]. inversion_clear H2 as [|? ? Hd _].
  rewrite of_digits_snoc. unfold vertex_numbers. rewrite filter_app, map_app.
  fold (vertex_numbers ds). rewrite <- (IH H1). cbn [filter].
  destruct (N.eq_dec (10 * of_digits ds + d) 0) as [Z|NZ].
  - assert (of_digits ds = 0) by lia. assert (d = 0) by lia. subst d.
    rewrite Z, H. reflexivity.
  - rewrite parse_facet_step by assumption. destruct (d =? 0); reflexivity.
Qed.
