(* C03 — the helpers of t4_geom_convert/Kernel/VectUtils.py that MacroBodies.py
   uses, written once over an abstract scalar (Base/Scalar.v): instantiated at
   RS for the theorems and at FS (binary64) for the correspondence runs.
   Operation order follows the Python text (left-associated sums), so that the
   binary64 reading takes the same branches as the code.
   Only definitions here; lemmas are in C03/VecFacts.v. *)
From Coq Require Import List ZArith Bool.
From T4V Require Import Base.Scalar.
Import ListNotations.

(* Python exception classes the modelled path can raise *)
Inductive err :=
| EMacroBody    (* MacroBodyError: wrong number of parameters *)
| EZeroDiv      (* ZeroDivisionError *)
| EValue        (* ValueError: planeParamsFromPoints, collinear points *)
| EIndex        (* IndexError: ARB descriptor names a vertex that was cut off *)
| EType         (* TypeError: ARB descriptor with fewer than three vertices *)
| ECellConv.    (* CellConversionError: facet number out of range *)

Inductive res (A : Type) := Ok (a : A) | Err (e : err).
Arguments Ok {A}. Arguments Err {A}.

Definition bind {A B} (x : res A) (f : A -> res B) : res B :=
  match x with Ok a => f a | Err e => Err e end.

Declare Scope res_scope.
Notation "'do' x <- e1 ; e2" := (bind e1 (fun x => e2))
  (at level 200, x pattern, e1 at level 100, e2 at level 200) : res_scope.

Section Vec.
  Context {T : Type} (S : Scalar T).

  Definition vec : Type := (T * T * T)%type.

  Local Notation "0" := (s0 S).
  Local Notation "1" := (s1 S).
  Local Infix "+" := (sadd S).
  Local Infix "-" := (ssub S).
  Local Infix "*" := (smul S).
  Local Infix "/" := (sdiv S).

  (* Python float division: a zero divisor raises *)
  Definition divr (a b : T) : res T :=
    if seqb S b 0 then Err EZeroDiv else Ok (a / b).

  Definition scal (v w : vec) : T :=
    let '(a1, b1, c1) := v in let '(a2, b2, c2) := w in
    a1 * a2 + b1 * b2 + c1 * c2.

  Definition vect (v w : vec) : vec :=
    let '(x1, y1, z1) := v in let '(x2, y2, z2) := w in
    (y1 * z2 - z1 * y2, x2 * z1 - x1 * z2, x1 * y2 - y1 * x2).

  Definition mixed (u v w : vec) : T := scal u (vect v w).

  Definition rescale (a : T) (v : vec) : vec :=
    let '(x, y, z) := v in (a * x, a * y, a * z).

  (* vsum starts from 0. and adds the arguments in order *)
  Definition vsum_list (l : list vec) : vec :=
    fold_left (fun acc v => let '(x, y, z) := acc in let '(a, b, c) := v in
                            (x + a, y + b, z + c)) l (0, 0, 0).
  Definition vsum2 (v w : vec) : vec := vsum_list [v; w].
  Definition vsum3 (u v w : vec) : vec := vsum_list [u; v; w].

  Definition vdiff (v w : vec) : vec :=
    let '(x1, y1, z1) := v in let '(x2, y2, z2) := w in
    (x1 - x2, y1 - y2, z1 - z2).

  Definition vneg (v : vec) : vec :=
    let '(x, y, z) := v in (sneg S x, sneg S y, sneg S z).

  Definition mag2 (v : vec) : T := scal v v.
  Definition mag (v : vec) : T := ssqrt S (mag2 v).

  (* renorm(vec, norm) = rescale(norm / mag(vec), vec) *)
  Definition renorm_to (v : vec) (norm : T) : res vec :=
    bind (divr norm (mag v)) (fun k => Ok (rescale k v)).
  Definition renorm (v : vec) : res vec := renorm_to v 1.

  (* Rodrigues: v cos t + (k x v) sin t + k (k.v)(1 - cos t) *)
  Definition rotate (v axis : vec) (angle : T) : vec :=
    let c := scos S angle in
    let s := ssin S angle in
    vsum3 (rescale c v) (rescale s (vect axis v))
          (rescale ((1 - c) * scal axis v) axis).

  Definition vlist (v : vec) : list T := let '(x, y, z) := v in [x; y; z].

  (* planeParamsFromNormalAndPoint *)
  Definition plane_np (n p : vec) : list T :=
    let '(a, b, c) := n in [a; b; c; scal n p].

  (* constants written in the code as decimal literals: 1e-10, 1e-14, 1e-3;
     at binary64 the correctly rounded quotient IS the literal *)
  Definition c1em10 : T := 1 / sofZ S 10000000000.
  Definition c1em14 : T := 1 / sofZ S 100000000000000.
  Definition c1em3 : T := 1 / sofZ S 1000.

  (* planeParamsFromPoints: unit normal, origin negative; ties broken on the
     z, y, x components with the 1e-14 band; ValueError for (almost)
     collinear points *)
  Definition plane_from_points (p1 p2 p3 : vec) : res (list T) :=
    let normal := vect (vdiff p1 p2) (vdiff p1 p3) in
    if sleb S (mag2 normal) c1em10 then Err EValue else
    bind (renorm normal) (fun un =>
    let '(ux, uy, uz) := un in
    let pos := scal un p1 in
    let eps := c1em14 in
    let params := [ux; uy; uz; pos] in
    let flipped := [sneg S ux; sneg S uy; sneg S uz; sneg S pos] in
    if sltb S pos (sneg S eps) then Ok flipped else
    if sltb S eps pos then Ok params else
    if sltb S uz (sneg S eps) then Ok flipped else
    if sltb S eps uz then Ok params else
    if sltb S uy (sneg S eps) then Ok flipped else
    if sltb S eps uy then Ok params else
    if sltb S ux (sneg S eps) then Ok flipped else
    if sltb S eps ux then Ok params else
    Err EValue).

  (* ---- TransformationQuad.transformation_quad (4x4 congruence) ---- *)
  Definition v4 : Type := (T * T * T * T)%type.
  Definition m4 : Type := (v4 * v4 * v4 * v4)%type.

  Definition dot4 (a b : v4) : T :=
    let '(a0, a1, a2, a3) := a in let '(b0, b1, b2, b3) := b in
    a0 * b0 + a1 * b1 + a2 * b2 + a3 * b3.

  Definition transpose4 (m : m4) : m4 :=
    let '((a00, a01, a02, a03), (a10, a11, a12, a13),
          (a20, a21, a22, a23), (a30, a31, a32, a33)) := m in
    ((a00, a10, a20, a30), (a01, a11, a21, a31),
     (a02, a12, a22, a32), (a03, a13, a23, a33)).

  Definition matmul4 (a b : m4) : m4 :=
    let '(r0, r1, r2, r3) := a in
    let '(c0, c1, c2, c3) := transpose4 b in
    let row r := (dot4 r c0, dot4 r c1, dot4 r c2, dot4 r c3) in
    (row r0, row r1, row r2, row r3).

  Definition half : T := 1 / sofZ S 2.   (* 0.5 *)
  Definition two : T := sofZ S 2.

  (* params: A B C D E F G H J K (x2 y2 z2 xy yz zx x y z 1);
     trans: translation then the three rows of the rotation *)
  Definition transformation_quad (params : list T) (t r0 r1 r2 : vec) : list T :=
    let p i := nth i params 0 in
    let a_mat : m4 :=
      ((p 0%nat, p 3%nat * half, p 5%nat * half, p 6%nat * half),
       (p 3%nat * half, p 1%nat, p 4%nat * half, p 7%nat * half),
       (p 5%nat * half, p 4%nat * half, p 2%nat, p 8%nat * half),
       (p 6%nat * half, p 7%nat * half, p 8%nat * half, p 9%nat)) in
    let '(r00, r01, r02) := r0 in
    let '(r10, r11, r12) := r1 in
    let '(r20, r21, r22) := r2 in
    let '(t0, t1, t2) := t in
    let r_mat : m4 := ((r00, r01, r02, 0), (r10, r11, r12, 0),
                       (r20, r21, r22, 0), (0, 0, 0, 1)) in
    let q_mat : m4 := ((1, 0, 0, sneg S t0), (0, 1, 0, sneg S t1),
                       (0, 0, 1, sneg S t2), (0, 0, 0, 1)) in
    let m_mat := matmul4 r_mat q_mat in
    let '((b00, b01, b02, b03), (_, b11, b12, b13),
          (_, _, b22, b23), (_, _, _, b33)) :=
      matmul4 (transpose4 m_mat) (matmul4 a_mat m_mat) in
    [b00; b11; b22; b01 * two; b12 * two; b02 * two;
     b03 * two; b13 * two; b23 * two; b33].
End Vec.
