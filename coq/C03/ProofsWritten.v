(* C03 — end to end: the TRIPOLI-4 surfaces written for a macrobody (possibly
   moved by a TR on its card, or by the TRCL / FILL transformation that
   pot_transform applies) are MCNP's facets read in the auxiliary frame; a facet
   reference keeps its facet under a transformation. *)
From Coq Require Import List ZArith NArith Bool Reals Lra Lia.
From T4V Require Import Base.Scalar C03.Vec C03.Model C03.Convert C03.Spec C03.SpecT4
  C03.VecFacts C03.WfFacts C03.ProofsPlanes C03.ProofsQuad C03.ProofsArb C03.ProofsConvert.
Import ListNotations.
Open Scope R_scope.

Lemma convert_entries_sound (tr : option rtransf) (es : list rentry) (fs : list (pt -> R)) :
  tr_ok tr -> Forall entry_wf es -> Forall2 same_facet es fs ->
  exists ts, convert_entries RS tr es = Ok ts /\
             Forall2 (same_t4_facet (frame_of tr)) ts fs.
Proof.
  intros Htr Hwf F. revert Hwf. induction F as [|e f es fs (c & Hc & Hv) _ IH]; intros Hwf.
  - exists []. split; [reflexivity|constructor].
  - inversion_clear Hwf as [|? ? We Wr].
    destruct (IH Wr) as (ts & Ets & Fts).
    destruct (convert_entry_sound tr e Htr We) as (t & prm & c1 & Hc1 & Ee & V).
    cbn [convert_entries]. rewrite Ee, Ets. cbn [bind app].
    eexists; split; [reflexivity|]. constructor; [|exact Fts].
    exists (c1 * c). split; [now apply Rmult_lt_0_compat|]. intros p.
    destruct e as [[ty eprm] side]. cbn [t4e_value fst snd] in *.
    rewrite V. specialize (Hv (frame_of tr p)). cbn [entry_value] in Hv.
    rewrite <- Rmult_assoc, (Rmult_comm (IZR side)), Rmult_assoc, Hv. ring.
Qed.

(* the generic step from a facet theorem to the written surfaces *)
Lemma written_from_facets (tr : option rtransf) (b : body) (p : list R) (d : list N)
      (fs : list (pt -> R)) :
  tr_ok tr ->
  (exists es, body_parts RS b p d = Ok es /\ Forall entry_wf es /\ Forall2 same_facet es fs) ->
  exists ts, body_t4 RS tr b p d = Ok ts /\ Forall2 (same_t4_facet (frame_of tr)) ts fs.
Proof.
  intros Htr (es & E & W & F). unfold body_t4. rewrite E. cbn [bind].
  now apply convert_entries_sound.
Qed.

(* written surfaces: -b / +b *)
Lemma t4_facets_inside g (ts : list rt4e) (fs : list (pt -> R)) (p : pt) :
  Forall2 (same_t4_facet g) ts fs ->
  (t4_all_negative ts p <-> inside_of fs (g p)) /\
  (t4_some_positive ts p <-> outside_of fs (g p)).
Proof.
  unfold t4_all_negative, t4_some_positive, inside_of, outside_of.
  induction 1 as [|e f ts fs (c & Hc & He) _ [IH1 IH2]].
  - split; split; intros H; try constructor; inversion H.
  - split; split; intros H; inversion_clear H.
    + constructor; [rewrite He in *; nra | now apply IH1].
    + constructor; [rewrite He; nra | now apply IH1].
    + left. rewrite He in *. nra.
    + right. now apply IH2.
    + left. rewrite He. nra.
    + right. now apply IH2.
Qed.

(* ---- pot_transform: a reference n.k under a transformation ---- *)
Theorem pot_transform_facet (tr : rtransf) (es : list rentry) (fs : list (pt -> R))
        (k : nat) (f : pt -> R) :
  orthogonal tr -> Forall entry_wf es -> Forall2 same_facet es fs ->
  nth_error fs k = Some f ->
  exists t, pot_transform_ref RS tr es (Some (S k)) = Ok [t] /\
            same_t4_facet (to_aux tr) t f.
Proof.
  intros Htr Hwf F Hk.
  assert (exists e, nth_error es k = Some e) as [e He].
  { destruct (nth_error es k) eqn:E; [eauto|]. exfalso. apply nth_error_None in E.
    assert (List.length es = List.length fs) by (clear - F; induction F; cbn; congruence).
    assert (nth_error fs k <> None) by congruence. apply nth_error_Some in H0. lia. }
  unfold pot_transform_ref. cbn [coll_get]. unfold entry, rentry in *. rewrite He. cbn [bind].
  assert (We : Forall entry_wf [e]).
  { constructor; [|constructor]. rewrite Forall_forall in Hwf. apply Hwf.
    eapply nth_error_In; eassumption. }
  assert (Fe : Forall2 same_facet [e] [f]).
  { constructor; [|constructor]. eapply facets_nth; eassumption. }
  destruct (convert_entries_sound (Some tr) [e] [f] Htr We Fe) as (ts & E & Fts).
  inversion Fts as [|t f' ts' fs' Ht Hnil]; subst. inversion Hnil; subst.
  exists t. split; [exact E | exact Ht].
Qed.

Theorem pot_transform_whole (tr : rtransf) (es : list rentry) (fs : list (pt -> R)) :
  orthogonal tr -> Forall entry_wf es -> Forall2 same_facet es fs ->
  exists ts, pot_transform_ref RS tr es None = Ok ts /\
             Forall2 (same_t4_facet (to_aux tr)) ts fs.
Proof.
  intros Htr Hwf F. unfold pot_transform_ref. cbn [coll_get bind].
  exact (convert_entries_sound (Some tr) es fs Htr Hwf F).
Qed.

Theorem pot_transform_out_of_range (tr : rtransf) (es : list rentry) (k : nat) :
  (k = 0 \/ List.length es < k)%nat -> pot_transform_ref RS tr es (Some k) = Err EIndex.
Proof.
  intros [-> | H]; [reflexivity|]. destruct k as [|j]; [reflexivity|].
  unfold pot_transform_ref. cbn [coll_get]. unfold entry, rentry in *.
  assert (E : nth_error es j = None) by (apply nth_error_None; lia). now rewrite E.
Qed.
