(* C03 — references to a macrobody in a cell, read over the WRITTEN surfaces:
   the twin of ProofsExpand.reference_semantics with the TRIPOLI-4 surfaces of
   C03/Convert.v in place of the MCNP entries, in the frame g of the cell. *)
From Coq Require Import List ZArith Bool Reals Lra Lia.
From T4V Require Import Base.Scalar C03.Vec C03.Model C03.Convert C03.Spec C03.SpecT4
  C03.VecFacts C03.ProofsExpand C03.ProofsConvert C03.ProofsWritten.
Import ListNotations.
Open Scope R_scope.

Definition side_ok_t4 (e : rt4e) : Prop := snd e = 1%Z \/ snd e = (-1)%Z.

Lemma t4_nth g (ts : list rt4e) (fs : list (pt -> R)) (k : nat) e f :
  Forall2 (same_t4_facet g) ts fs -> nth_error ts k = Some e -> nth_error fs k = Some f ->
  same_t4_facet g e f.
Proof.
  intros H. revert k. induction H as [|e0 f0 es fs H0 _ IH]; intros [|k]; cbn; intros; try discriminate.
  - now inversion H; inversion H1; subst.
  - eapply IH; eassumption.
Qed.

Definition tty (e : rt4e) : t4type := fst (fst e).
Definition tprm (e : rt4e) : list R := snd (fst e).

(* [ns] are the TRIPOLI-4 ids given to the entries, [fv] evaluates the written
   surfaces at the point p *)
Definition numbered_t4 (fv : Z -> R) (p : pt) (es : list rt4e) (ns : list Z) : Prop :=
  Forall2 (fun e n => (0 < n)%Z /\ fv n = t4_value (tty e) (tprm e) p) es ns.

Definition fl_of_t4 (p : pt) (es : list rt4e) (ns : list Z) : list nfacet :=
  map (fun '(e, n) => (snd e, n, t4_value (tty e) (tprm e) p)) (combine es ns).

(* what CollectionDict.number_items hands to pot_expand_surfs *)
Definition ids_of_t4 (es : list rt4e) (ns : list Z) : list Z :=
  map (fun '(e, n) => (snd e * n)%Z) (combine es ns).

Lemma ids_of_t4_fl_t4 p es ns : ids_of_t4 es ns = map nf_id (fl_of_t4 p es ns).
Proof.
  unfold ids_of_t4, fl_of_t4. rewrite map_map. apply map_ext. now intros [[[ty prm] s] n].
Qed.

Lemma t4e_value_eq (e : rt4e) p : t4e_value e p = IZR (snd e) * t4_value (tty e) (tprm e) p.
Proof. now destruct e as [[ty prm] s]. Qed.

Lemma fl_ok_t4 fv p es ns :
  numbered_t4 fv p es ns -> Forall side_ok_t4 es -> Forall (nf_ok fv) (fl_of_t4 p es ns).
Proof.
  induction 1 as [|e n es ns [Hn Hv] _ IH]; intros Hs; [constructor|].
  inversion_clear Hs as [|? ? Hs1 Hs2]. unfold fl_of_t4. cbn [combine map]. constructor; [|now apply IH].
  unfold nf_ok. repeat split; assumption.
Qed.

Lemma fl_negative_t4 fv p es ns :
  numbered_t4 fv p es ns ->
  (Forall (fun f => nf_val f < 0) (fl_of_t4 p es ns) <-> t4_all_negative es p).
Proof.
  unfold t4_all_negative.
  induction 1 as [|e n es ns _ _ IH]; [split; constructor|].
  unfold fl_of_t4. cbn [combine map]. split; intros H; inversion_clear H; constructor;
    try (apply IH; assumption).
  - rewrite t4e_value_eq. assumption.
  - unfold nf_val. rewrite <- t4e_value_eq. assumption.
Qed.

Lemma fl_positive_t4 fv p es ns :
  numbered_t4 fv p es ns ->
  (Exists (fun f => 0 < nf_val f) (fl_of_t4 p es ns) <-> t4_some_positive es p).
Proof.
  unfold t4_some_positive.
  induction 1 as [|e n es ns _ _ IH]; [split; intros H; inversion H|].
  unfold fl_of_t4. cbn [combine map]. split; intros H; inversion_clear H.
  - left. rewrite t4e_value_eq. assumption.
  - right. now apply IH.
  - left. unfold nf_val. rewrite <- t4e_value_eq. assumption.
  - right. now apply IH.
Qed.

Lemma fl_nth_t4 fv p es ns k e :
  numbered_t4 fv p es ns -> nth_error es k = Some e ->
  exists n, nth_error (fl_of_t4 p es ns) k = Some (snd e, n, t4_value (tty e) (tprm e) p).
Proof.
  intros H. revert k. induction H as [|e0 n es ns _ _ IH]; intros [|k]; cbn; try discriminate.
  - intros [= ->]. now exists n.
  - intros Hk. apply IH. exact Hk.
Qed.

Lemma Forall2_len_t4 {A B} (P : A -> B -> Prop) l m : Forall2 P l m -> List.length l = List.length m.
Proof. induction 1; cbn; congruence. Qed.

Theorem reference_semantics_t4 (g : pt -> pt) (es : list rt4e) (fs : list (pt -> R)) (ns : list Z)
        (fv : Z -> R) (p : pt) (new_key n : Z) :
  Forall2 (same_t4_facet g) es fs -> Forall side_ok_t4 es -> es <> [] -> numbered_t4 fv p es ns ->
  (* -b : the solid *)
  ((n < 0)%Z -> exists t k, expand new_key n None (ids_of_t4 es ns) = Ok (t, k) /\
                            (den fv t <-> inside_of fs (g p))) /\
  (* +b : its complement *)
  ((0 < n)%Z -> exists t k, expand new_key n None (ids_of_t4 es ns) = Ok (t, k) /\
                            (den fv t <-> outside_of fs (g p))) /\
  (* b.k : the k-th facet, outward positive *)
  (forall k f, nth_error fs k = Some f -> n <> 0%Z ->
     exists t, expand new_key n (Some (S k)) (ids_of_t4 es ns) = Ok (t, new_key) /\
               (den fv t <-> if (0 <? n)%Z then 0 < f (g p) else f (g p) < 0)) /\
  (* b.k beyond the last facet: error *)
  (forall k, (List.length fs < k)%nat ->
     expand new_key n (Some k) (ids_of_t4 es ns) = Err ECellConv).
Proof.
  intros Hf Hs Hne Hnum.
  pose proof (fl_ok_t4 fv p es ns Hnum Hs) as Hok.
  assert (Hfl : fl_of_t4 p es ns <> []).
  { destruct Hnum; [congruence|]. unfold fl_of_t4. cbn [combine map]. discriminate. }
  rewrite (ids_of_t4_fl_t4 p). repeat split.
  - intros Hn. destruct (expand_body_negative fv _ new_key n Hok Hfl Hn) as (t & k & E & D).
    exists t, k. split; [exact E|]. rewrite D, (fl_negative_t4 fv p es ns Hnum).
    now apply (t4_facets_inside g es fs p Hf).
  - intros Hn. destruct (expand_body_positive fv _ new_key n Hok Hfl Hn) as (t & k & E & D).
    exists t, k. split; [exact E|]. rewrite D, (fl_positive_t4 fv p es ns Hnum).
    now apply (t4_facets_inside g es fs p Hf).
  - intros k f Hk Hn.
    assert (exists e, nth_error es k = Some e) as [e He].
    { destruct (nth_error es k) eqn:E; [eauto|]. exfalso.
      apply nth_error_None in E. pose proof (Forall2_len_t4 _ _ _ Hf) as L.
      assert (nth_error fs k <> None) by congruence. apply nth_error_Some in H. lia. }
    destruct (fl_nth_t4 fv p es ns k e Hnum He) as (m & Hm).
    destruct (expand_facet fv _ new_key n k _ Hok Hm Hn) as (t & E & D).
    exists t. split; [exact E|]. rewrite D.
    destruct (t4_nth g es fs k e f Hf He Hk) as (c & Hc & Hv).
    unfold nf_val. rewrite <- t4e_value_eq, Hv.
    destruct (0 <? n)%Z; split; intros; nra.
  - intros k Hk. apply expand_facet_out_of_range. rewrite map_length.
    unfold fl_of_t4. rewrite map_length, combine_length.
    pose proof (Forall2_len_t4 _ _ _ Hf). pose proof (Forall2_len_t4 _ _ _ Hnum). lia.
Qed.


(* the sides survive the conversion *)
Lemma convert_entries_sides (tr : option rtransf) (es : list rentry) :
  tr_ok tr -> Forall entry_wf es ->
  forall ts, convert_entries RS tr es = Ok ts -> map snd ts = map snd es.
Proof.
  intros Htr. induction 1 as [|e es We _ IH]; intros ts; cbn [convert_entries].
  - intros [= <-]. reflexivity.
  - destruct (convert_entry_sound tr e Htr We) as (t & prm & c & _ & Ee & _).
    rewrite Ee. cbn [bind]. destruct (convert_entries RS tr es) as [m|] eqn:Em; cbn [bind]; [|discriminate].
    intros [= <-]. cbn [app map snd]. f_equal. now apply IH.
Qed.

(* body function -> written surfaces -> numbering -> pot_expand_surfs: the
   reference -b / +b / b.k in a cell, read over the TRIPOLI-4 surfaces that are
   written ([fv n] = t4_value of the written surface number n at the point) *)
Theorem reference_written (tr : option rtransf) (bd : body) (p : list R) (d : list N)
        (fs : list (pt -> R)) :
  tr_ok tr -> fs <> [] ->
  (exists es, body_parts RS bd p d = Ok es /\ Forall entry_wf es /\ Forall2 same_facet es fs) ->
  forall ts, body_t4 RS tr bd p d = Ok ts ->
  forall (ns : list Z) (fv : Z -> R) (q : pt) (new_key n : Z),
  numbered_t4 fv q ts ns ->
  ((n < 0)%Z -> exists t k, expand new_key n None (ids_of_t4 ts ns) = Ok (t, k) /\
                            (den fv t <-> inside_of fs (frame_of tr q))) /\
  ((0 < n)%Z -> exists t k, expand new_key n None (ids_of_t4 ts ns) = Ok (t, k) /\
                            (den fv t <-> outside_of fs (frame_of tr q))) /\
  (forall k f, nth_error fs k = Some f -> n <> 0%Z ->
     exists t, expand new_key n (Some (S k)) (ids_of_t4 ts ns) = Ok (t, new_key) /\
               (den fv t <-> if (0 <? n)%Z then 0 < f (frame_of tr q) else f (frame_of tr q) < 0)) /\
  (forall k, (List.length fs < k)%nat ->
     expand new_key n (Some k) (ids_of_t4 ts ns) = Err ECellConv).
Proof.
  intros Htr Hne (es & E & W & F) ts Et ns fv q new_key n Hnum.
  unfold body_t4 in Et. rewrite E in Et. cbn [bind] in Et.
  destruct (convert_entries_sound tr es fs Htr W F) as (ts' & Et' & Ft).
  rewrite Et in Et'. injection Et' as <-.
  apply reference_semantics_t4; try assumption.
  - pose proof (convert_entries_sides tr es Htr W ts Et) as Sd.
    pose proof (body_sides_ok bd p d es E) as So.
    clear - Sd So. revert ts Sd. induction So as [|e es He _ IH]; intros [|t ts]; cbn; intros Sd;
      try discriminate; constructor.
    + injection Sd as S1 _. unfold side_ok_t4. unfold side_ok in He. now rewrite S1.
    + apply IH. now injection Sd.
  - intros ->. inversion Ft; subst. congruence.
Qed.
