(* C03 — the statements in their final form (restated in Properties/C03.v). *)
From Coq Require Import List ZArith NArith Bool Reals Lra Lia.
From T4V Require Import Base.Scalar C03.Vec C03.Model C03.Convert C03.Spec C03.SpecT4
  C03.VecFacts C03.WfFacts C03.ProofsPlanes C03.ProofsQuad C03.ProofsArb C03.ProofsExpand
  C03.ProofsConvert C03.ProofsWritten.
Import ListNotations.
Open Scope R_scope.

(* from "the entries are the facets" to "-b is the solid, +b its complement" *)
Lemma inside_from_facets (B : res (list rentry)) (fs : list (pt -> R)) :
  (exists es, B = Ok es /\ Forall2 same_facet es fs) ->
  forall es, B = Ok es -> forall p,
    (inside_of fs p <-> all_negative es p) /\ (outside_of fs p <-> some_positive es p).
Proof.
  intros (es' & E & F) es E' p. rewrite E in E'. injection E' as ->.
  split; symmetry; [now apply facets_inside | now apply facets_outside].
Qed.

Ltac from_facets L :=
  intros; match goal with H : _ = Ok ?es |- _ =>
    eapply inside_from_facets; [apply L; assumption | exact H] end.

Theorem box_inside_ok (v a1 a2 a3 : pt) :
  box_admissible a1 a2 a3 ->
  forall es, box RS (pl v ++ pl a1 ++ pl a2 ++ pl a3) = Ok es -> forall p,
    (box_inside v a1 a2 a3 p <-> all_negative es p) /\
    (outside_of (box_facets v a1 a2 a3) p <-> some_positive es p).
Proof.
  intros Adm es E p.
  destruct (inside_from_facets _ _ (box_facets_ok v a1 a2 a3 Adm) es E p) as [I O].
  split; [|exact O]. now rewrite box_inside_facets.
Qed.

Theorem rpp_inside_ok (x0 x1 y0 y1 z0 z1 : R) :
  forall es, rpp RS [x0; x1; y0; y1; z0; z1] = Ok es -> forall p,
    (rpp_inside x0 x1 y0 y1 z0 z1 p <-> all_negative es p) /\
    (outside_of (rpp_facets x0 x1 y0 y1 z0 z1) p <-> some_positive es p).
Proof.
  intros es E p.
  destruct (inside_from_facets _ _ (rpp_facets_ok x0 x1 y0 y1 z0 z1) es E p) as [I O].
  split; [|exact O]. now rewrite rpp_inside_facets.
Qed.

Theorem sph_inside_ok (c : pt) (r : R) :
  forall es, sph (pl c ++ [r]) = Ok es -> forall p,
    (sph_inside c r p <-> all_negative es p) /\
    (outside_of (sph_facets c r) p <-> some_positive es p).
Proof.
  intros es E p.
  destruct (inside_from_facets _ _ (sph_facets_ok c r) es E p) as [I O].
  split; [|exact O]. now rewrite sph_inside_facets.
Qed.

Theorem rcc_inside_ok (v h : pt) (r : R) :
  h <> (0, 0, 0) ->
  forall es, rcc RS (pl v ++ pl h ++ [r]) = Ok es -> forall p,
    (rcc_inside v h r p <-> all_negative es p) /\
    (outside_of (rcc_facets v h r) p <-> some_positive es p).
Proof.
  intros Hh es E p.
  destruct (inside_from_facets _ _ (rcc_facets_ok v h r Hh) es E p) as [I O].
  split; [|exact O]. now rewrite rcc_inside_facets.
Qed.

Theorem wed_inside_ok (v a b h : pt) :
  wed_admissible a b h ->
  forall es, wed RS (pl v ++ pl a ++ pl b ++ pl h) = Ok es -> forall p,
    (wed_inside v a b h p <-> all_negative es p) /\
    (outside_of (wed_facets v a b h) p <-> some_positive es p).
Proof.
  intros Adm es E p.
  destruct (inside_from_facets _ _ (wed_facets_ok v a b h Adm) es E p) as [I O].
  split; [|exact O]. now rewrite wed_inside_facets.
Qed.

Theorem rhp15_inside_ok (v h r s t : pt) :
  forall es, rhp RS (pl v ++ pl h ++ pl r ++ pl s ++ pl t) = Ok es -> forall p,
    (inside_of (rhp_facets v h r s t) p <-> all_negative es p) /\
    (outside_of (rhp_facets v h r s t) p <-> some_positive es p).
Proof. from_facets rhp15_facets_ok. Qed.

Theorem rhp9_inside_ok (v h r : pt) :
  h <> (0, 0, 0) -> dot r h = 0 ->
  forall es, rhp RS (pl v ++ pl h ++ pl r) = Ok es -> forall p,
    (inside_of (rhp_regular_facets v h r) p <-> all_negative es p) /\
    (outside_of (rhp_regular_facets v h r) p <-> some_positive es p).
Proof. from_facets rhp9_facets_ok. Qed.

Theorem rec12_inside_ok (v h a1 a2 : pt) :
  h <> (0, 0, 0) -> a1 <> (0, 0, 0) -> a2 <> (0, 0, 0) ->
  forall es, rec RS (pl v ++ pl h ++ pl a1 ++ pl a2) = Ok es -> forall p,
    (inside_of (rec_facets v h a1 a2) p <-> all_negative es p) /\
    (outside_of (rec_facets v h a1 a2) p <-> some_positive es p).
Proof. from_facets rec12_facets_ok. Qed.

Theorem rec10_inside_ok (v h a1 : pt) (b : R) :
  cross h a1 <> (0, 0, 0) -> b <> 0 ->
  forall es, rec RS (pl v ++ pl h ++ pl a1 ++ [b]) = Ok es -> forall p,
    (inside_of (rec_facets v h a1 (rec10_minor h a1 b)) p <-> all_negative es p) /\
    (outside_of (rec_facets v h a1 (rec10_minor h a1 b)) p <-> some_positive es p).
Proof. from_facets rec10_facets_ok. Qed.

Theorem trc_inside_ok (v h : pt) (r0 r1 : R) :
  h <> (0, 0, 0) -> r0 <> r1 ->
  forall es, trc RS (pl v ++ pl h ++ [r0; r1]) = Ok es -> forall p,
    (inside_of (trc_facets v h r0 r1) p <-> all_negative es p) /\
    (outside_of (trc_facets v h r0 r1) p <-> some_positive es p).
Proof. from_facets trc_facets_ok. Qed.

Theorem ell_axis_inside_ok (c a : pt) (mb : R) :
  a <> (0, 0, 0) -> mb < 0 ->
  forall es, ell RS (pl c ++ pl a ++ [mb]) = Ok es -> forall p,
    (inside_of (ell_axis_facets c a mb) p <-> all_negative es p) /\
    (outside_of (ell_axis_facets c a mb) p <-> some_positive es p).
Proof. from_facets ell_axis_facets_ok. Qed.

Theorem ell_foci_inside_ok (f1 f2 : pt) (L : R) :
  0 < L -> vsub f1 (vmul (1 / 2) (vadd f1 f2)) <> (0, 0, 0) ->
  norm (vsub f1 (vmul (1 / 2) (vadd f1 f2))) <> 2 * L ->
  forall es, ell RS (pl f1 ++ pl f2 ++ [L]) = Ok es -> forall p,
    (inside_of (ell_foci_facets f1 f2 L) p <-> all_negative es p) /\
    (outside_of (ell_foci_facets f1 f2 L) p <-> some_positive es p).
Proof.
  intros HL Hf Hn es E p.
  eapply inside_from_facets; [|exact E]. now apply ell_foci_facets_ok.
Qed.

Theorem ell_foci_facet_ok (f1 f2 : pt) (L : R) :
  0 < L -> vsub f1 (vmul (1 / 2) (vadd f1 f2)) <> (0, 0, 0) ->
  norm (vsub f1 (vmul (1 / 2) (vadd f1 f2))) <> 2 * L ->
  exists es, ell RS (pl f1 ++ pl f2 ++ [L]) = Ok es /\
             Forall2 same_facet es (ell_foci_facets f1 f2 L).
Proof. intros. now apply ell_foci_facets_ok. Qed.

Theorem arb_inside_ok (V : list pt) (descr : list N) :
  List.length V = 8%nat -> List.length descr = 6%nat ->
  (1 <= arb_nvert descr <= 8)%nat ->
  Forall (facet_admissible (firstn (arb_nvert descr) V)
                           (centroid_of (firstn (arb_nvert descr) V)))
         (arb_facet_lists descr) ->
  forall es, arb RS (flat V) descr = Ok es -> forall p,
    (inside_of (arb_facets (firstn (arb_nvert descr) V) (arb_facet_lists descr)) p
     <-> all_negative es p) /\
    (outside_of (arb_facets (firstn (arb_nvert descr) V) (arb_facet_lists descr)) p
     <-> some_positive es p).
Proof.
  intros HV Hd Hn Adm es E p. eapply inside_from_facets; [|exact E].
  now apply arb_facets_ok.
Qed.

Theorem arb_facet_ok (V : list pt) (descr : list N) :
  List.length V = 8%nat -> List.length descr = 6%nat ->
  (1 <= arb_nvert descr <= 8)%nat ->
  Forall (facet_admissible (firstn (arb_nvert descr) V)
                           (centroid_of (firstn (arb_nvert descr) V)))
         (arb_facet_lists descr) ->
  exists es, arb RS (flat V) descr = Ok es /\
    Forall2 same_facet es (arb_facets (firstn (arb_nvert descr) V) (arb_facet_lists descr)).
Proof. intros. now apply arb_facets_ok. Qed.

(* the dispatch of to_surfaces_macro: HEX is RHP *)
Theorem dispatch_hex (p : list R) (d : list N) :
  body_parts RS HEX p d = body_parts RS RHP p d.
Proof. reflexivity. Qed.

(* ---- check_params_length: a wrong number of entries is an error ---- *)
Definition expected_lengths (b : body) : list nat :=
  match b with
  | BOX | WED => [12] | RPP => [6] | SPH => [4] | RCC | ELL => [7]
  | RHP | HEX => [9; 15] | REC => [10; 12] | TRC => [8] | ARB => [24]
  end%nat.

Theorem wrong_count_rejected (b : body) (p : list R) (d : list N) :
  ~ In (List.length p) (expected_lengths b) ->
  body_parts RS b p d = Err EMacroBody.
Proof.
  intros H.
  assert (F : forall n, ~ In (List.length p) [n] -> len_is p n = false).
  { intros n Hn. unfold len_is. apply Nat.eqb_neq. intros E. apply Hn. now left. }
  assert (F2 : forall n m, ~ In (List.length p) [n; m] -> len_is p n || len_is p m = false).
  { intros n m Hn. unfold len_is. apply orb_false_iff. split; apply Nat.eqb_neq; intros E;
      apply Hn; cbn; auto. }
  destruct b; cbn [body_parts expected_lengths] in *;
    unfold box, rpp, sph, rcc, rhp, rec, trc, ell, wed, arb;
    rewrite ?(F _ H), ?(F2 _ _ H); reflexivity.
Qed.

Theorem arb_wrong_descriptor_count (p : list R) (d : list N) :
  List.length d <> 6%nat -> arb RS p d = Err EMacroBody.
Proof.
  intros H. unfold arb. apply Nat.eqb_neq in H. rewrite H, andb_false_r. reflexivity.
Qed.

(* TRC with equal radii: the apex does not exist, the code divides by zero *)
Theorem trc_equal_radii_error (v h : pt) (r : R) :
  trc RS (pl v ++ pl h ++ [r; r]) = Err EZeroDiv.
Proof.
  open_body @trc. change 7%nat with (3 + (3 + 1))%nat. change 6%nat with (3 + (3 + 0))%nat.
  rewrite !nth_skip. cbn [nth]. unfold divr. rs.
  replace (r - r) with 0 by ring.
  destruct (Reqb 0 0) eqn:E; [reflexivity|]. apply Reqb_false in E. congruence.
Qed.

(* sanity of the ARB Spec: the centroid is strictly inside every admissible
   facet's half-space *)
Theorem arb_centroid_inside (vs : list pt) (facets : list (list nat)) :
  Forall (facet_admissible vs (centroid_of vs)) facets ->
  inside_of (arb_facets vs facets) (centroid_of vs).
Proof.
  unfold inside_of, arb_facets. induction 1 as [|f r Hf _ IH]; cbn [map]; constructor; [|exact IH].
  destruct Hf as (i1 & i2 & i3 & rest & p1 & p2 & p3 & -> & E1 & E2 & E3 & _ & Hs).
  cbn [arb_facet_of].
  rewrite (nth_error_nth _ _ _ origin E1), (nth_error_nth _ _ _ origin E2),
          (nth_error_nth _ _ _ origin E3).
  unfold arb_facet. set (s := dot (cross (vsub p1 p2) (vsub p1 p3)) (vsub (centroid_of vs) p1)) in *.
  nra.
Qed.

(* ---- TRC and REC against the solids described without their facets ---- *)
Theorem trc_solid_ok (v h : pt) (r0 r1 : R) :
  h <> (0, 0, 0) -> r0 <> r1 ->
  forall es, trc RS (pl v ++ pl h ++ [r0; r1]) = Ok es -> forall p,
    trc_inside v h r0 r1 p <-> all_negative es p.
Proof.
  intros Hh Hr es E p.
  destruct (trc_inside_ok v h r0 r1 Hh Hr es E p) as [I _].
  now rewrite trc_inside_facets.
Qed.

Theorem rec12_solid_ok (v h a1 a2 : pt) :
  dot h a1 = 0 -> dot h a2 = 0 -> dot a1 a2 = 0 ->
  h <> (0, 0, 0) -> a1 <> (0, 0, 0) -> a2 <> (0, 0, 0) ->
  forall es, rec RS (pl v ++ pl h ++ pl a1 ++ pl a2) = Ok es -> forall p,
    rec_inside v h a1 a2 p <-> all_negative es p.
Proof.
  intros H1 H2 H12 Hh Ha1 Ha2 es E p.
  destruct (rec12_inside_ok v h a1 a2 Hh Ha1 Ha2 es E p) as [I _].
  now rewrite rec_inside_facets.
Qed.

Theorem rec10_solid_ok (v h a1 : pt) (b : R) :
  dot h a1 = 0 -> cross h a1 <> (0, 0, 0) -> b <> 0 ->
  forall es, rec RS (pl v ++ pl h ++ pl a1 ++ [b]) = Ok es -> forall p,
    rec_inside v h a1 (rec10_minor h a1 b) p <-> all_negative es p.
Proof.
  intros H1 Hc Hb es E p.
  destruct (rec10_inside_ok v h a1 b Hc Hb es E p) as [I _].
  assert (Hh : h <> (0, 0, 0)).
  { intros ->. apply Hc. destruct a1 as [[x y] z]. unfold cross. apply pair3; ring. }
  assert (Ha1 : a1 <> (0, 0, 0)).
  { intros ->. apply Hc. destruct h as [[x y] z]. unfold cross. apply pair3; ring. }
  assert (O : dot h (cross h a1) = 0 /\ dot a1 (cross h a1) = 0).
  { clear. destruct h as [[x y] z], a1 as [[a b] c]. unfold dot, cross. split; ring. }
  destruct O as [O1 O2].
  assert (Ha2 : rec10_minor h a1 b <> (0, 0, 0)).
  { unfold rec10_minor. intros Z. apply Hc. apply (vmul_zero (b / norm (cross h a1))); [|exact Z].
    pose proof (norm_pos _ Hc). unfold Rdiv. apply Rmult_integral_contrapositive_currified; [exact Hb|].
    apply Rinv_neq_0_compat. lra. }
  assert (P1 : dot h (rec10_minor h a1 b) = 0).
  { unfold rec10_minor. rewrite dot_vmul_r, O1. ring. }
  assert (P2 : dot a1 (rec10_minor h a1 b) = 0).
  { unfold rec10_minor. rewrite dot_vmul_r, O2. ring. }
  rewrite (rec_inside_facets v h a1 (rec10_minor h a1 b) p H1 P1 P2 Hh Ha1 Ha2). exact I.
Qed.

(* ================================================================== *)
(* What is WRITTEN: body function, then every entry through            *)
(* to_surface_mcnp / transformation / conversion_surface_params.       *)
(* tr = None: the body as it stands; Some tr: a TR on the surface card, *)
(* or the TRCL / FILL transformation applied by pot_transform.         *)
(* ================================================================== *)
Notation written tr b p d fs :=
  (exists ts, body_t4 RS tr b p d = Ok ts /\ Forall2 (same_t4_facet (frame_of tr)) ts fs).

Ltac by_full L := intros; apply written_from_facets; [assumption | apply L; assumption].

Theorem box_written tr (v a1 a2 a3 : pt) :
  tr_ok tr -> box_admissible a1 a2 a3 ->
  written tr BOX (pl v ++ pl a1 ++ pl a2 ++ pl a3) [] (box_facets v a1 a2 a3).
Proof. by_full box_facets_ok_full. Qed.

Theorem box_general_written tr (v a1 a2 a3 : pt) :
  tr_ok tr -> det a1 a2 a3 <> 0 ->
  written tr BOX (pl v ++ pl a1 ++ pl a2 ++ pl a3) [] (para_facets v a1 a2 a3).
Proof. by_full box_general_facets_full. Qed.

Theorem rpp_written tr (x0 x1 y0 y1 z0 z1 : R) :
  tr_ok tr -> written tr RPP [x0; x1; y0; y1; z0; z1] [] (rpp_facets x0 x1 y0 y1 z0 z1).
Proof. intros. apply written_from_facets; [assumption | apply rpp_facets_ok_full]. Qed.

Theorem sph_written tr (c : pt) (r : R) :
  tr_ok tr -> written tr SPH (pl c ++ [r]) [] (sph_facets c r).
Proof. intros. apply written_from_facets; [assumption | apply sph_facets_ok_full]. Qed.

Theorem rcc_written tr (v h : pt) (r : R) :
  tr_ok tr -> h <> (0, 0, 0) -> written tr RCC (pl v ++ pl h ++ [r]) [] (rcc_facets v h r).
Proof. by_full rcc_facets_ok_full. Qed.

Theorem rhp15_written tr (v h r s t : pt) :
  tr_ok tr -> h <> (0, 0, 0) -> r <> (0, 0, 0) -> s <> (0, 0, 0) -> t <> (0, 0, 0) ->
  written tr RHP (pl v ++ pl h ++ pl r ++ pl s ++ pl t) [] (rhp_facets v h r s t).
Proof.
  intros Htr Hh Hr Hs Ht. apply written_from_facets; [assumption|].
  destruct (rhp15_facets_ok v h r s t) as (es & E & F).
  exists es. split; [exact E|]. split; [|exact F]. now apply (rhp15_wf v h r s t).
Qed.

Theorem rhp9_written tr (v h r : pt) :
  tr_ok tr -> h <> (0, 0, 0) -> dot r h = 0 -> r <> (0, 0, 0) ->
  written tr RHP (pl v ++ pl h ++ pl r) [] (rhp_regular_facets v h r).
Proof.
  intros Htr Hh Hd Hr. apply written_from_facets; [assumption|].
  destruct (rhp9_facets_ok v h r Hh Hd) as (es & E & F).
  exists es. split; [exact E|]. split; [|exact F]. now apply (rhp9_wf v h r).
Qed.

Theorem rec12_written tr (v h a1 a2 : pt) :
  tr_ok tr -> h <> (0, 0, 0) -> a1 <> (0, 0, 0) -> a2 <> (0, 0, 0) ->
  written tr REC (pl v ++ pl h ++ pl a1 ++ pl a2) [] (rec_facets v h a1 a2).
Proof. by_full rec12_facets_ok_full. Qed.

Theorem rec10_written tr (v h a1 : pt) (b : R) :
  tr_ok tr -> cross h a1 <> (0, 0, 0) -> b <> 0 ->
  written tr REC (pl v ++ pl h ++ pl a1 ++ [b]) [] (rec_facets v h a1 (rec10_minor h a1 b)).
Proof. by_full rec10_facets_ok_full. Qed.

Theorem trc_written tr (v h : pt) (r0 r1 : R) :
  tr_ok tr -> h <> (0, 0, 0) -> r0 <> r1 ->
  written tr TRC (pl v ++ pl h ++ [r0; r1]) [] (trc_facets v h r0 r1).
Proof. by_full trc_facets_ok_full. Qed.

Theorem ell_axis_written tr (c a : pt) (mb : R) :
  tr_ok tr -> a <> (0, 0, 0) -> mb < 0 ->
  written tr ELL (pl c ++ pl a ++ [mb]) [] (ell_axis_facets c a mb).
Proof. by_full ell_axis_facets_ok_full. Qed.

Theorem ell_foci_written tr (f1 f2 : pt) (L : R) :
  tr_ok tr -> 0 < L -> vsub f1 (vmul (1 / 2) (vadd f1 f2)) <> (0, 0, 0) ->
  norm (vsub f1 (vmul (1 / 2) (vadd f1 f2))) <> 2 * L ->
  written tr ELL (pl f1 ++ pl f2 ++ [L]) [] (ell_foci_facets f1 f2 L).
Proof.
  intros. apply written_from_facets; [assumption|]. now apply ell_foci_facets_ok_full.
Qed.

Theorem wed_written tr (v a b h : pt) :
  tr_ok tr -> wed_admissible a b h ->
  written tr WED (pl v ++ pl a ++ pl b ++ pl h) [] (wed_facets v a b h).
Proof. by_full wed_facets_ok_full. Qed.

Theorem arb_written tr (V : list pt) (descr : list N) :
  tr_ok tr -> List.length V = 8%nat -> List.length descr = 6%nat ->
  (1 <= arb_nvert descr <= 8)%nat ->
  Forall (facet_admissible (firstn (arb_nvert descr) V)
                           (centroid_of (firstn (arb_nvert descr) V)))
         (arb_facet_lists descr) ->
  written tr ARB (flat V) descr
          (arb_facets (firstn (arb_nvert descr) V) (arb_facet_lists descr)).
Proof.
  intros. apply written_from_facets; [assumption|]. now apply arb_facets_ok_full.
Qed.

(* end to end for the BOX: the points on the MINUS side of all six written
   surfaces (side taken into account) are the box, moved *)
Theorem box_written_solid tr (v a1 a2 a3 : pt) :
  tr_ok tr -> box_admissible a1 a2 a3 ->
  forall ts, body_t4 RS tr BOX (pl v ++ pl a1 ++ pl a2 ++ pl a3) [] = Ok ts ->
  forall p, t4_all_negative ts p <-> box_inside v a1 a2 a3 (frame_of tr p).
Proof.
  intros Htr Adm ts E p. destruct (box_written tr v a1 a2 a3 Htr Adm) as (ts' & E' & F).
  rewrite E in E'. injection E' as <-.
  rewrite (proj1 (t4_facets_inside _ ts _ p F)). symmetry. now apply box_inside_facets.
Qed.

Theorem wed_written_solid tr (v a b h : pt) :
  tr_ok tr -> wed_admissible a b h ->
  forall ts, body_t4 RS tr WED (pl v ++ pl a ++ pl b ++ pl h) [] = Ok ts ->
  forall p, t4_all_negative ts p <-> wed_inside v a b h (frame_of tr p).
Proof.
  intros Htr Adm ts E p. destruct (wed_written tr v a b h Htr Adm) as (ts' & E' & F).
  rewrite E in E'. injection E' as <-.
  rewrite (proj1 (t4_facets_inside _ ts _ p F)). symmetry. now apply wed_inside_facets.
Qed.

(* ---- ARB tetrahedron: -b is the open convex hull of the four vertices ---- *)
From T4V Require Import C03.ProofsHull.

Theorem arb_tetra_solid (p1 p2 p3 p4 q5 q6 q7 q8 : pt) :
  let V := [p1; p2; p3; p4; q5; q6; q7; q8] in
  let descr := [123; 124; 134; 234; 0; 0]%N in
  det (vsub p2 p1) (vsub p3 p1) (vsub p4 p1) <> 0 ->
  Forall (facet_admissible [p1; p2; p3; p4] (centroid_of [p1; p2; p3; p4])) tetra_facets ->
  forall es, arb RS (flat V) descr = Ok es ->
  forall p, all_negative es p <-> hull4 p1 p2 p3 p4 p.
Proof.
  intros V descr HD Adm es E p.
  assert (Nv : arb_nvert descr = 4%nat) by reflexivity.
  assert (Fl : arb_facet_lists descr = tetra_facets) by reflexivity.
  destruct (arb_inside_ok V descr eq_refl eq_refl) with (es := es) (p := p) as [I _].
  - rewrite Nv. lia.
  - rewrite Nv, Fl. exact Adm.
  - exact E.
  - rewrite <- I, Nv, Fl. cbn [firstn V]. now apply tetra_hull.
Qed.
