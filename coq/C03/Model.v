(* C03 — executable model of
     Kernel/Surface/MacroBodies.py      check_params_length box rpp sph rcc rhp rec
                                        trc ell wed parse_facet arb
     Kernel/FileHandlers/Parser/ParseMCNPSurface.py   to_surfaces_macro (dispatch)
     Kernel/Surface/CollectionDict.py   number_items (ids of one collection)
     Kernel/Volume/CellConversion.py    pot_expand_surfs (leaf branches)
   written over an abstract scalar; faithful to what the code does (including
   the b.0 -> last facet indexing and the Python exceptions, as Err).  Proofs are in C03/Proofs*.v. *)
From Coq Require Import List ZArith NArith Bool.
From T4V Require Import Base.Scalar C03.Vec.
Import ListNotations.
Open Scope res_scope.

(* surface types the body functions emit (ESurfaceTypeMCNP.P S C K GQ) *)
Inductive stype := TP | TS | TC | TK | TGQ.

(* MCNP mnemonics dispatched by to_surfaces_macro *)
Inductive body := BOX | RPP | SPH | RCC | RHP | HEX | REC | TRC | ELL | WED | ARB.

(* ---- parse_facet: decimal digits of the descriptor, zeros dropped, each
   minus one, most significant first ---- *)
Fixpoint digits_lsf (fuel : nat) (n : N) : list nat :=
  match fuel with
  | O => []
  | S f =>
      if (n =? 0)%N then [] else
      let d := (n mod 10)%N in
      let r := digits_lsf f (n / 10)%N in
      if (d =? 0)%N then r else (N.to_nat d - 1)%nat :: r
  end.
Definition parse_facet (n : N) : list nat := rev (digits_lsf (N.size_nat n) n).

Fixpoint nodup_nat (l : list nat) : list nat :=
  match l with
  | [] => []
  | x :: r => if existsb (Nat.eqb x) r then nodup_nat r else x :: nodup_nat r
  end.

Section Model.
  Context {T : Type} (S : Scalar T).

  Local Notation "0" := (s0 S).
  Local Notation "1" := (s1 S).
  Local Infix "+" := (sadd S).
  Local Infix "-" := (ssub S).
  Local Infix "*" := (smul S).
  Local Notation vec := (@vec T).

  (* (type, parameters, side): side = +1 when the outside of the body is on
     the positive side of the surface *)
  Definition entry : Type := (stype * list T * Z)%type.

  Definition v3 (p : list T) (i : nat) : vec :=
    (nth i p 0, nth (i + 1) p 0, nth (i + 2) p 0).

  Definition len_is (p : list T) (n : nat) : bool := Nat.eqb (List.length p) n.

  Definition m1 : T := sneg S 1.

  (* ---- BOX ---- *)
  Definition box (p : list T) : res (list entry) :=
    if negb (len_is p 12) then Err EMacroBody else
    let base := v3 p 0 in
    let a := v3 p 3 in let b := v3 p 6 in let c := v3 p 9 in
    let pt_a := vsum2 S base a in
    let pt_b := vsum2 S base b in
    let pt_c := vsum2 S base c in
    let n_ab := vect S a b in
    let n_bc := vect S b c in
    let n_ca := vect S c a in
    let side_ab : Z := if sltb S (scal S n_ab c) 0 then 1%Z else (-1)%Z in
    let side_bc : Z := if sltb S (scal S n_bc a) 0 then 1%Z else (-1)%Z in
    let side_ca : Z := if sltb S (scal S n_ca b) 0 then 1%Z else (-1)%Z in
    Ok [ (TP, plane_np S n_bc pt_a, (- side_bc)%Z);
         (TP, plane_np S n_bc base, side_bc);
         (TP, plane_np S n_ca pt_b, (- side_ca)%Z);
         (TP, plane_np S n_ca base, side_ca);
         (TP, plane_np S n_ab pt_c, (- side_ab)%Z);
         (TP, plane_np S n_ab base, side_ab) ].

  (* ---- RPP ---- *)
  Definition rpp (p : list T) : res (list entry) :=
    if negb (len_is p 6) then Err EMacroBody else
    let q i := nth i p 0 in
    Ok [ (TP, [1; 0; 0; q 1%nat], 1%Z); (TP, [1; 0; 0; q 0%nat], (-1)%Z);
         (TP, [0; 1; 0; q 3%nat], 1%Z); (TP, [0; 1; 0; q 2%nat], (-1)%Z);
         (TP, [0; 0; 1; q 5%nat], 1%Z); (TP, [0; 0; 1; q 4%nat], (-1)%Z) ].

  (* ---- SPH ---- *)
  Definition sph (p : list T) : res (list entry) :=
    if negb (len_is p 4) then Err EMacroBody else Ok [ (TS, p, 1%Z) ].

  (* the two end planes shared by RCC RHP REC TRC WED *)
  Definition end_planes (base height : vec) : list entry :=
    [ (TP, plane_np S height (vsum2 S base height), 1%Z);
      (TP, plane_np S height base, (-1)%Z) ].

  (* ---- RCC ---- *)
  Definition rcc (p : list T) : res (list entry) :=
    if negb (len_is p 7) then Err EMacroBody else
    let base := v3 p 0 in let height := v3 p 3 in
    let radius := nth 6 p 0 in
    Ok ((TC, vlist base ++ [radius] ++ vlist height, 1%Z)
        :: end_planes base height).

  (* ---- RHP / HEX ---- *)
  Definition rhp (p : list T) : res (list entry) :=
    if negb (len_is p 9 || len_is p 15) then Err EMacroBody else
    let base := v3 p 0 in let height := v3 p 3 in let a := v3 p 6 in
    do bc <- (if len_is p 15 then Ok (v3 p 9, v3 p 12) else
              do uh <- renorm S height;
              Ok (rotate S a uh (sdiv S (spi S) (sofZ S 3)),
                  rotate S a uh (sdiv S (sofZ S 2 * spi S) (sofZ S 3))));
    let '(b, c) := bc in
    let pair (w : vec) : list entry :=
      [ (TP, plane_np S w (vsum2 S base w), 1%Z);
        (TP, plane_np S w (vdiff S base w), (-1)%Z) ] in
    Ok (pair a ++ pair b ++ pair c ++ end_planes base height).

  Definition zeros (n : nat) : list T := repeat 0 n.

  (* ---- REC ---- *)
  Definition rec (p : list T) : res (list entry) :=
    if negb (len_is p 10 || len_is p 12) then Err EMacroBody else
    let base := v3 p 0 in let height := v3 p 3 in let maj := v3 p 6 in
    do mq <- (if len_is p 12 then
                let vmin := v3 p 9 in
                do ia <- divr S 1 (scal S maj maj);
                do ib <- divr S 1 (scal S vmin vmin);
                Ok (vmin, [ia; ib] ++ zeros 7 ++ [m1])
              else
                let b := nth 9 p 0 in
                do vmin <- renorm_to S (vect S height maj) b;
                do ia <- divr S 1 (scal S maj maj);
                do ib <- divr S 1 (b * b);
                Ok (vmin, [ia; ib] ++ zeros 7 ++ [m1]));
    let '(vmin, ellipse) := mq in
    do u_maj <- renorm S maj;
    do u_min <- renorm S vmin;
    do u_h <- renorm S height;
    Ok ((TGQ, transformation_quad S ellipse base u_maj u_min u_h, 1%Z)
        :: end_planes base height).

  (* ---- TRC ---- *)
  Definition trc (p : list T) : res (list entry) :=
    if negb (len_is p 8) then Err EMacroBody else
    let base := v3 p 0 in let height := v3 p 3 in
    let r0 := nth 6 p 0 in let r1 := nth 7 p 0 in
    do dist <- divr S r0 (r0 - r1);
    let apex := vsum2 S base (rescale S dist height) in
    do tana <- divr S (sabs S (r1 - r0)) (mag S height);
    do u_h <- renorm S height;
    Ok ((TK, vlist apex ++ [tana] ++ vlist u_h, 1%Z)
        :: end_planes base height).

  (* ---- ELL ---- *)
  (* the part common to both parameterisations: spheroid with centre [center],
     major semi-axis vector [va], squared minor radius [min2] *)
  Definition ell_quadric (center va : vec) (min2 : T) : res (list entry) :=
    do ua <- renorm S va;
    let '(ua0, ua1, ua2) := ua in
    let far (x : T) : bool := sltb S (c1em3 S) (sabs S (1 - sabs S x)) in
    do ub <- (if far ua0 then renorm S (vdiff S (1, 0, 0) (rescale S ua0 ua))
              else if far ua1 then renorm S (vdiff S (0, 1, 0) (rescale S ua1 ua))
              else renorm S (vdiff S (0, 0, 1) (rescale S ua2 ua)));
    let uc := vect S ua ub in
    do ia <- divr S 1 (mag2 S va);
    do ib <- divr S 1 min2;
    Ok [ (TGQ, transformation_quad S ([ia; ib; ib] ++ zeros 6 ++ [m1])
                                   center ua ub uc, 1%Z) ].

  Definition ell (p : list T) : res (list entry) :=
    if negb (len_is p 7) then Err EMacroBody else
    let last := nth 6 p 0 in
    do cab <- (if sltb S 0 last then
                 let f1 := v3 p 0 in let f2 := v3 p 3 in
                 let center := rescale S (half S) (vsum2 S f1 f2) in
                 let f1rel := vdiff S f1 center in
                 do va <- renorm_to S f1rel last;
                 let d := last - mag S f1rel in
                 Ok (center, va, last * last - d * d)
               else Ok (v3 p 0, v3 p 3, last * last));
    let '(center, va, min2) := cab in
    ell_quadric center va min2.

  (* ---- WED ---- *)
  Definition wed (p : list T) : res (list entry) :=
    if negb (len_is p 12) then Err EMacroBody else
    let base := v3 p 0 in
    let a := v3 p 3 in let b := v3 p 6 in let height := v3 p 9 in
    let pt_a := vsum2 S base a in
    let pt_b := vsum2 S base b in
    let c := vect S (vdiff S a b) height in
    let sign_c : Z := if sltb S 0 (scal S a c) then 1%Z else (-1)%Z in
    Ok ([ (TP, plane_np S c pt_a, sign_c);
          (TP, plane_np S a pt_b, (-1)%Z);
          (TP, plane_np S b pt_a, (-1)%Z) ] ++ end_planes base height).

  (* ---- ARB ---- *)
  (* sequence of lookups vertices[i]; the first missing one is an IndexError *)
  Fixpoint lookup_all (vs : list vec) (idx : list nat) : res (list vec) :=
    match idx with
    | [] => Ok []
    | i :: r =>
        match nth_error vs i with
        | None => Err EIndex
        | Some v => do l <- lookup_all vs r; Ok (v :: l)
        end
    end.

  Definition arb_plane (vs : list vec) (centroid : vec) (facet : list nat)
    : res entry :=
    do pts <- lookup_all vs (firstn 3 facet);
    match pts with
    | [p1; p2; p3] =>
        do pl <- plane_from_points S p1 p2 p3;
        let n := v3 pl 0 in
        let dist := vdiff S centroid p1 in   (* vertices[facet[0]] = p1 *)
        if sltb S 0 (scal S dist n)
        then Ok (TP, map (sneg S) pl, 1%Z) else Ok (TP, pl, 1%Z)
    | _ => Err EType
    end.

  Fixpoint arb_planes (vs : list vec) (centroid : vec) (facets : list (list nat))
    : res (list entry) :=
    match facets with
    | [] => Ok []
    | f :: r =>
        do e <- arb_plane vs centroid f;
        do l <- arb_planes vs centroid r;
        Ok (e :: l)
    end.

  Definition is_nil {A} (l : list A) : bool := match l with [] => true | _ => false end.

  (* verts: the first 24 parameters; descr: the last six as integers *)
  Definition arb (verts : list T) (descr : list N) : res (list entry) :=
    if negb (len_is verts 24 && Nat.eqb (List.length descr) 6) then Err EMacroBody else
    let vertices := map (fun i => v3 verts (3 * i)) (seq 0 8) in
    let facets := filter (fun f => negb (is_nil f)) (map parse_facet descr) in
    let n := List.length (nodup_nat (concat facets)) in
    let vs := firstn n vertices in
    do inv <- divr S 1 (sofZ S (Z.of_nat n));
    let centroid := rescale S inv (vsum_list S vs) in
    arb_planes vs centroid facets.

  (* ---- ParseMCNPSurface.to_surfaces_macro: the dispatch ---- *)
  Definition body_parts (b : body) (p : list T) (descr : list N) : res (list entry) :=
    match b with
    | BOX => box p | RPP => rpp p | SPH => sph p | RCC => rcc p
    | RHP | HEX => rhp p | REC => rec p | TRC => trc p | ELL => ell p
    | WED => wed p | ARB => arb p descr
    end.
End Model.

(* ---- CollectionDict.number_items, for one collection: the first facet keeps
   the body's number, the others take consecutive free ids; each id carries
   the facet's side as its sign ---- *)
Fixpoint number_rest (free : Z) (sides : list Z) : list Z :=
  match sides with
  | [] => []
  | s :: r => (s * free)%Z :: number_rest (free + 1)%Z r
  end.
Definition number_one (key free : Z) (sides : list Z) : list Z :=
  match sides with
  | [] => []
  | s :: r => (s * key)%Z :: number_rest free r
  end.

(* the whole dictionary, in insertion order: free ids start above the largest
   key and run through the collections in order *)
Fixpoint number_from (free : Z) (dic : list (Z * list Z)) : list (Z * list Z) :=
  match dic with
  | [] => []
  | (key, sides) :: r =>
      (key, number_one key free sides)
      :: number_from (free + Z.of_nat (List.length sides - 1))%Z r
  end.
Definition max_key (dic : list (Z * list Z)) : Z :=
  match dic with
  | [] => 0%Z
  | (k, _) :: r => fold_left Z.max (map fst r) k
  end.
Definition number_items (dic : list (Z * list Z)) : list (Z * list Z) :=
  number_from (max_key dic + 1)%Z dic.

(* ---- CellConversion.pot_expand_surfs, leaf that is a surface ---- *)
Inductive op := Inter | Union.
Inductive tree :=
| Leaf (n : Z)                              (* signed TRIPOLI-4 surface id *)
| Node (key : Z) (o : op) (args : list Z).  (* fresh cell key, operator, ids *)

(* Python list[i] for i >= -1 on a non-empty list *)
Definition py_index (l : list Z) (k : nat) : option Z :=
  match k with
  | O => match rev l with [] => None | x :: _ => Some x end   (* l[-1] *)
  | S j => nth_error l j
  end.

(* n: signed MCNP surface number; sub: the facet digit of "b.k", if any;
   t4_ids: matching[|n|]; new_key: self.new_cell_key. Returns the tree and the
   new value of the counter. *)
Definition expand (new_key : Z) (n : Z) (sub : option nat) (t4_ids : list Z)
  : res (tree * Z) :=
  match sub with
  | Some k =>
      if Nat.ltb (List.length t4_ids) k then Err ECellConv else
      match py_index t4_ids k with
      | None => Err EIndex
      | Some s => Ok (Leaf (if (0 <? n)%Z then s else (- s)%Z), new_key)
      end
  | None =>
      match t4_ids with
      | [s] => Ok (Leaf (if (0 <? n)%Z then s else (- s)%Z), new_key)
      | _ =>
          let key := (new_key + 1)%Z in
          if (n <? 0)%Z then Ok (Node key Inter (map Z.opp t4_ids), key)
          else Ok (Node key Union t4_ids, key)
      end
  end.
