(* C03 — what the macrobodies MEAN (DESIGN Appendix A, MCNP manual), written
   over the reals without looking at the converter, and how an entry
   (type, parameters, side) emitted by the converter is READ (the MCNP equation
   of that surface type; Appendix A/B).

   For every body: [<body>_facets] = MCNP's numbered facets as sense functions,
   outward side positive, and [<body>_inside] = the solid. *)
From Coq Require Import List ZArith Reals Lra.
From T4V Require Import C03.Model.
Import ListNotations.
Open Scope R_scope.

Definition pt : Type := (R * R * R)%type.

Definition dot (u v : pt) : R :=
  let '(a, b, c) := u in let '(d, e, f) := v in a * d + b * e + c * f.
Definition cross (u v : pt) : pt :=
  let '(a, b, c) := u in let '(d, e, f) := v in
  (b * f - c * e, c * d - a * f, a * e - b * d).
Definition vadd (u v : pt) : pt :=
  let '(a, b, c) := u in let '(d, e, f) := v in (a + d, b + e, c + f).
Definition vsub (u v : pt) : pt :=
  let '(a, b, c) := u in let '(d, e, f) := v in (a - d, b - e, c - f).
Definition vmul (k : R) (u : pt) : pt := let '(a, b, c) := u in (k * a, k * b, k * c).
Definition det (u v w : pt) : R := dot u (cross v w).
Definition norm2 (u : pt) : R := dot u u.
Definition norm (u : pt) : R := sqrt (norm2 u).

(* the entries of a card: a vector is three consecutive entries; the 24 vertex
   coordinates of ARB *)
Definition pl (v : pt) : list R := let '(x, y, z) := v in [x; y; z].
Definition flat (V : list pt) : list R := concat (map pl V).

(* ------------------------------------------------------------------ *)
(* Reading of an emitted entry: the equation of the surface type        *)
(* ------------------------------------------------------------------ *)
Definition sqr (x : R) : R := x * x.

(* GQ A B C D E F G H J K *)
Definition eval_gq (prm : list R) (p : pt) : R :=
  let '(x, y, z) := p in
  match prm with
  | [A; B; C; D; E; F; G; H; J; K] =>
      A * x * x + B * y * y + C * z * z + D * x * y + E * y * z + F * z * x
      + G * x + H * y + J * z + K
  | _ => 0
  end.

(* Sense value of point p for the surface (type, parameters).
   P A B C D          : Ax + By + Cz - D
   S x y z R          : |p - c|^2 - R^2
   C x y z R a b c    : cylinder of radius R about the line through (x,y,z)
                        with direction u = (a,b,c): |u|^2 (dist^2 - R^2)
   K x y z t a b c    : cone with apex (x,y,z), axis u, tan(half-angle) = t,
                        both sheets: |u|^2 (perp^2 - t^2 axial^2)
   GQ                 : the quadric polynomial.
   The factor |u|^2 > 0 keeps C and K polynomial; it does not change the sign. *)
Definition eval_surf (ty : stype) (prm : list R) (p : pt) : R :=
  match ty, prm with
  | TP, [a; b; c; d] => dot (a, b, c) p - d
  | TS, [x0; y0; z0; r] => norm2 (vsub p (x0, y0, z0)) - r * r
  | TC, [x0; y0; z0; r; a; b; c] =>
      let q := vsub p (x0, y0, z0) in let u := (a, b, c) in
      norm2 q * norm2 u - sqr (dot q u) - r * r * norm2 u
  | TK, [x0; y0; z0; t; a; b; c] =>
      let q := vsub p (x0, y0, z0) in let u := (a, b, c) in
      norm2 q * norm2 u - sqr (dot q u) - t * t * sqr (dot q u)
  | TGQ, _ => eval_gq prm p
  | _, _ => 0
  end.

Definition rentry : Type := (stype * list R * Z)%type.

(* side * f(p): negative exactly where the reference "-b" wants the point *)
Definition entry_value (e : rentry) (p : pt) : R :=
  let '(ty, prm, side) := e in IZR side * eval_surf ty prm p.

(* the entry is the facet f with the outward side positive (same zero set,
   same sign everywhere) *)
Definition same_facet (e : rentry) (f : pt -> R) : Prop :=
  exists c : R, 0 < c /\ forall p : pt, entry_value e p = c * f p.

(* a list of entries read as MCNP reads "-b" / "+b" / "b.k" *)
Definition all_negative (es : list rentry) (p : pt) : Prop :=
  Forall (fun e => entry_value e p < 0) es.
Definition some_positive (es : list rentry) (p : pt) : Prop :=
  Exists (fun e => 0 < entry_value e p) es.

(* ------------------------------------------------------------------ *)
(* MCNP facets, outward positive                                        *)
(* ------------------------------------------------------------------ *)
(* plane normal to a through v + a (the END of a drawn from v), outward +a *)
Definition plane_end (v a : pt) (p : pt) : R := dot (vsub (vsub p v) a) a.
(* plane normal to a through v (the BEGINNING of a), outward -a *)
Definition plane_begin (v a : pt) (p : pt) : R := - dot (vsub p v) a.
(* plane normal to a through v - a, outward -a (RHP's opposite facets) *)
Definition plane_opposite (v a : pt) (p : pt) : R := - dot (vadd (vsub p v) a) a.

(* squared distance of q from the line through the origin along h *)
Definition perp2 (q h : pt) : R := norm2 q - sqr (dot q h) / norm2 h.

Definition inside_of (fs : list (pt -> R)) (p : pt) : Prop :=
  Forall (fun f => f p < 0) fs.
Definition outside_of (fs : list (pt -> R)) (p : pt) : Prop :=
  Exists (fun f => 0 < f p) fs.

(* BOX v a1 a2 a3 *)
Definition box_facets (v a1 a2 a3 : pt) : list (pt -> R) :=
  [plane_end v a1; plane_begin v a1; plane_end v a2; plane_begin v a2;
   plane_end v a3; plane_begin v a3].
(* the solid: v + s a1 + t a2 + u a3 with 0 < s, t, u < 1 *)
Definition box_inside (v a1 a2 a3 : pt) (p : pt) : Prop :=
  exists s t u : R, 0 < s < 1 /\ 0 < t < 1 /\ 0 < u < 1 /\
    p = vadd v (vadd (vmul s a1) (vadd (vmul t a2) (vmul u a3))).

(* RPP xmin xmax ymin ymax zmin zmax *)
Definition rpp_facets (x0 x1 y0 y1 z0 z1 : R) : list (pt -> R) :=
  [ (fun '(x, _, _) => x - x1); (fun '(x, _, _) => x0 - x);
    (fun '(_, y, _) => y - y1); (fun '(_, y, _) => y0 - y);
    (fun '(_, _, z) => z - z1); (fun '(_, _, z) => z0 - z) ].
Definition rpp_inside (x0 x1 y0 y1 z0 z1 : R) (p : pt) : Prop :=
  let '(x, y, z) := p in x0 < x < x1 /\ y0 < y < y1 /\ z0 < z < z1.

(* SPH c R *)
Definition sph_facets (c : pt) (r : R) : list (pt -> R) :=
  [ fun p => norm2 (vsub p c) - r * r ].
Definition sph_inside (c : pt) (r : R) (p : pt) : Prop :=
  sqrt (norm2 (vsub p c)) < Rabs r.

(* RCC v h R *)
Definition rcc_facets (v h : pt) (r : R) : list (pt -> R) :=
  [ (fun p => perp2 (vsub p v) h - r * r); plane_end v h; plane_begin v h ].
(* the solid: v + t h + w, 0 < t < 1, w normal to h and shorter than |R| *)
Definition rcc_inside (v h : pt) (r : R) (p : pt) : Prop :=
  exists (t : R) (w : pt), 0 < t < 1 /\ dot w h = 0 /\ norm2 w < r * r /\
    p = vadd v (vadd (vmul t h) w).

(* RHP / HEX v h r s t *)
Definition rhp_facets (v h r s t : pt) : list (pt -> R) :=
  [ plane_end v r; plane_opposite v r; plane_end v s; plane_opposite v s;
    plane_end v t; plane_opposite v t; plane_end v h; plane_begin v h ].
(* r turned by the angle with cosine c and sine s about the axis h, for r
   normal to h (right-hand rule) *)
Definition turn (h r : pt) (c s : R) : pt :=
  vadd (vmul c r) (vmul (s / norm h) (cross h r)).
Definition rhp_regular_facets (v h r : pt) : list (pt -> R) :=
  rhp_facets v h r (turn h r (1 / 2) (sqrt 3 / 2)) (turn h r (- 1 / 2) (sqrt 3 / 2)).

(* REC v h a1 a2 (twelve entries) or v h a1 b (ten entries: minor semi-axis of
   length |b| along h x a1) *)
Definition ellcyl (v a1 a2 : pt) (p : pt) : R :=
  let q := vsub p v in
  sqr (dot q a1 / norm2 a1) + sqr (dot q a2 / norm2 a2) - 1.
Definition rec_facets (v h a1 a2 : pt) : list (pt -> R) :=
  [ ellcyl v a1 a2; plane_end v h; plane_begin v h ].
Definition rec10_minor (h a1 : pt) (b : R) : pt :=
  vmul (b / norm (cross h a1)) (cross h a1).

(* TRC v h r1 r2: radius r1 at the base, r2 at the top, linear in between *)
Definition trc_cone (v h : pt) (r1 r2 : R) (p : pt) : R :=
  let q := vsub p v in
  let t := dot q h / norm2 h in
  perp2 q h - sqr (r1 + (r2 - r1) * t).
Definition trc_facets (v h : pt) (r1 r2 : R) : list (pt -> R) :=
  [ trc_cone v h r1 r2; plane_end v h; plane_begin v h ].

(* ELL: spheroid with centre c, major semi-axis vector a, minor radius b *)
Definition spheroid (c a : pt) (b2 : R) (p : pt) : R :=
  let q := vsub p c in
  sqr (dot q a) / sqr (norm2 a) + perp2 q a / b2 - 1.
Definition ell_axis_facets (c a : pt) (b : R) : list (pt -> R) :=
  [ spheroid c a (b * b) ].
(* positive last entry L: as MCNP behaves according to the source comment of
   MacroBodies.ell (NOT the manual's wording): centre = midpoint of the two
   points, major semi-axis L along them, minor radius^2 = L^2 - (L - |f|)^2
   where |f| is half their distance *)
Definition ell_foci_facets (f1 f2 : pt) (L : R) : list (pt -> R) :=
  let c := vmul (1 / 2) (vadd f1 f2) in
  let f := vsub f1 c in
  [ spheroid c (vmul (L / norm f) f) (L * L - sqr (L - norm f)) ].

(* WED v a b h *)
Definition wed_slant (v a b : pt) (p : pt) : R :=
  let q := vsub p v in dot q a / norm2 a + dot q b / norm2 b - 1.
Definition wed_facets (v a b h : pt) : list (pt -> R) :=
  [ wed_slant v a b; plane_begin v a; plane_begin v b;
    plane_end v h; plane_begin v h ].
(* the solid: v + s a + t b + u h, s, t > 0, s + t < 1, 0 < u < 1 *)
Definition wed_inside (v a b h : pt) (p : pt) : Prop :=
  exists s t u : R, 0 < s /\ 0 < t /\ s + t < 1 /\ 0 < u < 1 /\
    p = vadd v (vadd (vmul s a) (vadd (vmul t b) (vmul u h))).

(* ARB: facet through three vertices with the vertex centroid on the negative
   side (convex polyhedron, centroid strictly inside) *)
Definition arb_facet (p1 p2 p3 centroid : pt) (p : pt) : R :=
  let n := cross (vsub p1 p2) (vsub p1 p3) in
  let s := dot n (vsub centroid p1) in
  (* outward = away from the centroid *)
  - (s * dot n (vsub p p1)).

(* ARB as a whole: [vs] the vertices in use, [facets] the vertex numbers
   (from 0) of every facet; the facet is the plane through its first three
   vertices, outward = away from the centroid of the vertices *)
Definition vsum (vs : list pt) : pt := fold_left vadd vs (0, 0, 0).
Definition centroid_of (vs : list pt) : pt := vmul (1 / INR (List.length vs)) (vsum vs).
Definition origin : pt := (0, 0, 0).
Definition arb_facet_of (vs : list pt) (f : list nat) : pt -> R :=
  match f with
  | i1 :: i2 :: i3 :: _ =>
      arb_facet (nth i1 vs origin) (nth i2 vs origin) (nth i3 vs origin) (centroid_of vs)
  | _ => fun _ => 0
  end.
Definition arb_facets (vs : list pt) (facets : list (list nat)) : list (pt -> R) :=
  map (arb_facet_of vs) facets.

(* ------------------------------------------------------------------ *)
(* MCNP's admissibility conditions (the guards of the theorems)         *)
(* ------------------------------------------------------------------ *)
(* BOX: a right parallelepiped, either handedness *)
Definition box_admissible (a1 a2 a3 : pt) : Prop :=
  dot a1 a2 = 0 /\ dot a1 a3 = 0 /\ dot a2 a3 = 0 /\ det a1 a2 a3 <> 0.
(* WED: a right wedge, either handedness *)
Definition wed_admissible (a b h : pt) : Prop :=
  dot a b = 0 /\ dot a h = 0 /\ dot b h = 0 /\ det a b h <> 0.

(* ARB: vertex numbers used by the descriptors, in descriptor order *)
Definition arb_facet_lists (descr : list N) : list (list nat) :=
  filter (fun f => negb (is_nil f)) (map parse_facet descr).
Definition arb_nvert (descr : list N) : nat :=
  List.length (nodup_nat (concat (arb_facet_lists descr))).

(* ARB facet: three vertex numbers in range, the vertices not (almost)
   collinear -- with the threshold of planeParamsFromPoints -- and the vertex
   centroid strictly off the plane (strictly inside a convex polyhedron) *)
Definition facet_admissible (vs : list pt) (cen : pt) (f : list nat) : Prop :=
  exists i1 i2 i3 rest p1 p2 p3,
    f = i1 :: i2 :: i3 :: rest /\
    nth_error vs i1 = Some p1 /\ nth_error vs i2 = Some p2 /\ nth_error vs i3 = Some p3 /\
    let n := cross (vsub p1 p2) (vsub p1 p3) in
    1 / 10000000000 < norm2 n /\ dot n (vsub cen p1) <> 0.

(* the solids of TRC and REC described without their facets *)
(* TRC: v + t h + w, 0 < t < 1, w normal to h and shorter than the radius at
   height t, which goes linearly from r1 to r2 *)
Definition trc_inside (v h : pt) (r1 r2 : R) (p : pt) : Prop :=
  exists (t : R) (w : pt), 0 < t < 1 /\ dot w h = 0 /\
    norm2 w < sqr (r1 + (r2 - r1) * t) /\ p = vadd v (vadd (vmul t h) w).
(* REC (right elliptical cylinder): v + t h + x a1 + y a2, x^2 + y^2 < 1 *)
Definition rec_inside (v h a1 a2 : pt) (p : pt) : Prop :=
  exists t x y : R, 0 < t < 1 /\ x * x + y * y < 1 /\
    p = vadd v (vadd (vmul t h) (vadd (vmul x a1) (vmul y a2))).

(* BOX for ANY parallelepiped (the code's own claim; MCNP wants a right one):
   coordinates of p - v in the basis (a1, a2, a3) by Cramer's rule; facet 1 is
   s1 = 1 (the face at the END of a1, spanned by a2 and a3), facet 2 is s1 = 0,
   and so on, outward positive *)
Definition para_coord (v a1 a2 a3 : pt) (i : nat) (p : pt) : R :=
  let q := vsub p v in
  match i with
  | O => det q a2 a3 / det a1 a2 a3
  | S O => det a1 q a3 / det a1 a2 a3
  | _ => det a1 a2 q / det a1 a2 a3
  end.
Definition para_facets (v a1 a2 a3 : pt) : list (pt -> R) :=
  [ (fun p => para_coord v a1 a2 a3 0 p - 1); (fun p => - para_coord v a1 a2 a3 0 p);
    (fun p => para_coord v a1 a2 a3 1 p - 1); (fun p => - para_coord v a1 a2 a3 1 p);
    (fun p => para_coord v a1 a2 a3 2 p - 1); (fun p => - para_coord v a1 a2 a3 2 p) ].
