(* C03 — what the written TRIPOLI-4 surfaces MEAN (DESIGN Appendix B) and what
   a SurfaceMCNP frame means, over the reals, without looking at the converter's
   conversion functions. *)
From Coq Require Import List ZArith Reals Lra.
From T4V Require Import Base.Scalar C03.Vec C03.Model C03.Convert C03.Spec.
Import ListNotations.
Open Scope R_scope.

Definition deg (th : R) : R := th * PI / 180.

(* SURF n <type> <parameters>: PLUS selects value > 0, MINUS value < 0 *)
Definition t4_value (ty : t4type) (prm : list R) (p : pt) : R :=
  let '(x, y, z) := p in
  match ty, prm with
  | PLANEX, [a] => x - a
  | PLANEY, [a] => y - a
  | PLANEZ, [a] => z - a
  | PLANE, [a; b; c; d] => a * x + b * y + c * z + d
  | SPHERE, [x0; y0; z0; r] => norm2 (vsub p (x0, y0, z0)) - r * r
  | CYLX, [y0; z0; r] => sqr (y - y0) + sqr (z - z0) - r * r
  | CYLY, [x0; z0; r] => sqr (x - x0) + sqr (z - z0) - r * r
  | CYLZ, [x0; y0; r] => sqr (x - x0) + sqr (y - y0) - r * r
  | CYL, [x0; y0; z0; r; a; b; c] => perp2 (vsub p (x0, y0, z0)) (a, b, c) - r * r
  | CONEX, [x0; y0; z0; th] =>
      sqr (y - y0) + sqr (z - z0) - sqr (tan (deg th)) * sqr (x - x0)
  | CONEY, [x0; y0; z0; th] =>
      sqr (x - x0) + sqr (z - z0) - sqr (tan (deg th)) * sqr (y - y0)
  | CONEZ, [x0; y0; z0; th] =>
      sqr (x - x0) + sqr (y - y0) - sqr (tan (deg th)) * sqr (z - z0)
  | CONE, [x0; y0; z0; th; a; b; c] =>
      let q := vsub p (x0, y0, z0) in
      perp2 q (a, b, c) - sqr (tan (deg th)) * (sqr (dot q (a, b, c)) / norm2 (a, b, c))
  | QUAD, _ => eval_gq prm p
  | _, _ => 0
  end.

(* a written surface used with a side: the reading of the cell reference *)
Definition rt4e : Type := (t4type * list R * Z)%type.
Definition t4e_value (e : rt4e) (p : pt) : R :=
  let '(ty, prm, side) := e in IZR side * t4_value ty prm p.

(* the written surface is the facet f read in the frame g (g = identity when
   nothing moves the body; g p = B (p - O) under a transformation) *)
Definition same_t4_facet (g : pt -> pt) (e : rt4e) (f : pt -> R) : Prop :=
  exists c : R, 0 < c /\ forall p : pt, t4e_value e p = c * f (g p).

Definition t4_all_negative (ts : list rt4e) (p : pt) : Prop :=
  Forall (fun e => t4e_value e p < 0) ts.
Definition t4_some_positive (ts : list rt4e) (p : pt) : Prop :=
  Exists (fun e => 0 < t4e_value e p) ts.

(* MCNP's reading of a transformation (TRn O B, M = 1; TRCL; FILL (...)): the
   moved object is given in the auxiliary frame, p_aux = B (p - O) *)
Definition rtransf : Type := (pt * pt * pt * pt)%type.
Definition to_aux (tr : rtransf) (p : pt) : pt :=
  let '(o, r0, r1, r2) := tr in
  (dot r0 (vsub p o), dot r1 (vsub p o), dot r2 (vsub p o)).
Definition frame_of (tr : option rtransf) : pt -> pt :=
  match tr with Some t => to_aux t | None => fun p => p end.

(* rotation matrix: rows and columns orthonormal *)
Definition orthogonal (tr : rtransf) : Prop :=
  let '(_, (b1, b2, b3), (b4, b5, b6), (b7, b8, b9)) := tr in
  b1 * b1 + b2 * b2 + b3 * b3 = 1 /\ b4 * b4 + b5 * b5 + b6 * b6 = 1 /\
  b7 * b7 + b8 * b8 + b9 * b9 = 1 /\
  b1 * b4 + b2 * b5 + b3 * b6 = 0 /\ b1 * b7 + b2 * b8 + b3 * b9 = 0 /\
  b4 * b7 + b5 * b8 + b6 * b9 = 0 /\
  b1 * b1 + b4 * b4 + b7 * b7 = 1 /\ b2 * b2 + b5 * b5 + b8 * b8 = 1 /\
  b3 * b3 + b6 * b6 + b9 * b9 = 1 /\
  b1 * b2 + b4 * b5 + b7 * b8 = 0 /\ b1 * b3 + b4 * b6 + b7 * b9 = 0 /\
  b2 * b3 + b5 * b6 + b8 * b9 = 0.
Definition tr_ok (tr : option rtransf) : Prop :=
  match tr with Some t => orthogonal t | None => True end.

(* well-formed entry: the shape its type needs and a non-zero normal / axis *)
Definition entry_wf (e : rentry) : Prop :=
  match e with
  | (TP, [a; b; c; _], _) => (a, b, c) <> (0, 0, 0)
  | (TS, [_; _; _; _], _) => True
  | (TC, [_; _; _; _; a; b; c], _) => (a, b, c) <> (0, 0, 0)
  | (TK, [_; _; _; _; a; b; c], _) => (a, b, c) <> (0, 0, 0)
  | (TGQ, [_; _; _; _; _; _; _; _; _; _], _) => True
  | _ => False
  end.
