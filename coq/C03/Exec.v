(* C03 — executable comparison functions used by the generated correspondence
   files: the model at binary64 against values observed on the implementation. *)
From Coq Require Import List NArith ZArith Bool PrimFloat.
From T4V Require Import Base.Scalar Base.Cases C03.Vec C03.Model.
Import ListNotations.

Definition err_eqb (a b : err) : bool :=
  match a, b with
  | EMacroBody, EMacroBody | EZeroDiv, EZeroDiv | EValue, EValue
  | EIndex, EIndex | EType, EType | ECellConv, ECellConv => true
  | _, _ => false
  end.

Definition stype_eqb (a b : stype) : bool :=
  match a, b with
  | TP, TP | TS, TS | TC, TC | TK, TK | TGQ, TGQ => true
  | _, _ => false
  end.

Definition fentry : Type := (stype * list float * Z)%type.

Definition entry_close (a b : fentry) : bool :=
  let '(ta, pa, sa) := a in let '(tb, pb, sb) := b in
  stype_eqb ta tb && list_eqb f_close9 pa pb && Z.eqb sa sb.

Definition res_eqb {A} (e : A -> A -> bool) (a b : res A) : bool :=
  match a, b with
  | Ok x, Ok y => e x y
  | Err x, Err y => err_eqb x y
  | _, _ => false
  end.

(* body, parameters (for ARB: the 24 coordinates), ARB descriptors, and what
   the Python body function returned *)
Definition body_case : Type := (body * list float * list N * res (list fentry))%type.

Definition check_body (c : body_case) : bool :=
  let '(b, p, d, expected) := c in
  res_eqb (list_eqb entry_close) (body_parts FS b p d) expected.

Definition check_parse_facet (c : N * list nat) : bool :=
  list_eqb Nat.eqb (parse_facet (fst c)) (snd c).

Definition check_number (c : list (Z * list Z) * list (Z * list Z)) : bool :=
  list_eqb (pair_eqb Z.eqb (list_eqb Z.eqb)) (number_items (fst c)) (snd c).

Definition tree_eqb (a b : tree) : bool :=
  match a, b with
  | Leaf x, Leaf y => Z.eqb x y
  | Node k1 Inter l1, Node k2 Inter l2
  | Node k1 Union l1, Node k2 Union l2 => Z.eqb k1 k2 && list_eqb Z.eqb l1 l2
  | _, _ => false
  end.

Definition expand_case : Type := (Z * Z * option nat * list Z * res (tree * Z))%type.

Definition check_expand (c : expand_case) : bool :=
  let '(key, n, sub, ids, expected) := c in
  res_eqb (pair_eqb tree_eqb Z.eqb) (expand key n sub ids) expected.

(* ---- conversion of an entry to the TRIPOLI-4 surface ---- *)
From T4V Require Import C03.Convert.

Definition t4type_eqb (a b : t4type) : bool :=
  match a, b with
  | PLANEX, PLANEX | PLANEY, PLANEY | PLANEZ, PLANEZ | PLANE, PLANE | SPHERE, SPHERE
  | CYLX, CYLX | CYLY, CYLY | CYLZ, CYLZ | CYL, CYL | CONEX, CONEX | CONEY, CONEY
  | CONEZ, CONEZ | CONE, CONE | QUAD, QUAD => true
  | _, _ => false
  end.

Definition ft4e : Type := (t4type * list float * Z)%type.

Definition t4e_close (a b : ft4e) : bool :=
  let '(ta, pa, sa) := a in let '(tb, pb, sb) := b in
  t4type_eqb ta tb && list_eqb f_close9 pa pb && Z.eqb sa sb.

Definition transf_of (l : list float) : option (transf (T := float)) :=
  match l with
  | [o1; o2; o3; b1; b2; b3; b4; b5; b6; b7; b8; b9] =>
      Some ((o1, o2, o3), (b1, b2, b3), (b4, b5, b6), (b7, b8, b9))
  | _ => None
  end.

(* transformation (12 numbers, or [] for none), entry, what the code produced *)
Definition convert_case : Type := (list float * fentry * res (list ft4e))%type.

Definition check_convert (c : convert_case) : bool :=
  let '(tr, e, expected) := c in
  res_eqb (list_eqb t4e_close) (convert_entry FS (transf_of tr) e) expected.

(* facet selection + transformation: entries of the body, facet number or none *)
Definition ptransf_case : Type :=
  (list float * list fentry * option nat * res (list ft4e))%type.

Definition check_ptransf (c : ptransf_case) : bool :=
  let '(tr, es, sub, expected) := c in
  match transf_of tr with
  | Some t => res_eqb (list_eqb t4e_close) (pot_transform_ref FS t es sub) expected
  | None => false
  end.

(* ---- whole conversion of a deck with one macrobody and the cell "-b": the
   surfaces of the written volume, each with +1 when it is listed under MINUS
   and -1 under PLUS, against body_t4 (any order) ---- *)
Fixpoint remove_close (x : ft4e) (l : list ft4e) : option (list ft4e) :=
  match l with
  | [] => None
  | y :: r => if t4e_close x y then Some r
              else match remove_close x r with Some r' => Some (y :: r') | None => None end
  end.

Fixpoint same_multiset (a b : list ft4e) : bool :=
  match a with
  | [] => match b with [] => true | _ => false end
  | x :: r => match remove_close x b with Some b' => same_multiset r b' | None => false end
  end.

Definition deck_case : Type := (list float * body * list float * list N * list ft4e)%type.

Definition check_deck (c : deck_case) : bool :=
  let '(tr, b, p, d, observed) := c in
  match body_t4 FS (transf_of tr) b p d with
  | Ok ts => same_multiset ts observed
  | Err _ => false
  end.
