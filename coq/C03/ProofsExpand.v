(* C03 — references to a macrobody in a cell: what pot_expand_surfs builds from
   the numbered facets denotes MCNP's reading of -b, +b, -b.k, +b.k. *)
From Coq Require Import List ZArith Bool Reals Lra Lia.
From T4V Require Import Base.Scalar C03.Vec C03.Model C03.Spec C03.VecFacts.
Import ListNotations.
Open Scope R_scope.

(* TRIPOLI-4 reading of a signed surface id in a volume: +n is the side where
   the surface's function is positive, -n the side where it is negative
   (DESIGN Appendix B); [fv n] is the value of surface n at the point *)
Definition lit (fv : Z -> R) (s : Z) : Prop := 0 < IZR (Z.sgn s) * fv (Z.abs s).

Definition den (fv : Z -> R) (t : tree) : Prop :=
  match t with
  | Leaf s => lit fv s
  | Node _ Inter l => Forall (lit fv) l
  | Node _ Union l => Exists (lit fv) l
  end.

(* a numbered facet: side, TRIPOLI-4 id, value of the surface at the point *)
Definition nfacet : Type := (Z * Z * R)%type.
Definition nf_ok (fv : Z -> R) (f : nfacet) : Prop :=
  let '(s, n, v) := f in (s = 1%Z \/ s = (-1)%Z) /\ (0 < n)%Z /\ fv n = v.
Definition nf_id (f : nfacet) : Z := let '(s, n, _) := f in (s * n)%Z.
Definition nf_val (f : nfacet) : R := let '(s, _, v) := f in IZR s * v.

Lemma lit_pos fv f : nf_ok fv f -> (lit fv (nf_id f) <-> 0 < nf_val f).
Proof.
  destruct f as [[s n] v]. intros ([-> | ->] & Hn & <-); unfold lit, nf_id, nf_val.
  - replace (1 * n)%Z with n by lia. rewrite Z.sgn_pos, Z.abs_eq by lia. reflexivity.
  - replace (-1 * n)%Z with (- n)%Z by lia. rewrite Z.sgn_neg, Z.abs_neq by lia.
    replace (- - n)%Z with n by lia. reflexivity.
Qed.

Lemma lit_neg fv f : nf_ok fv f -> (lit fv (- nf_id f) <-> nf_val f < 0).
Proof.
  destruct f as [[s n] v]. intros ([-> | ->] & Hn & <-); unfold lit, nf_id, nf_val.
  - replace (- (1 * n))%Z with (- n)%Z by lia. rewrite Z.sgn_neg, Z.abs_neq by lia.
    replace (- - n)%Z with n by lia. simpl IZR. lra.
  - replace (- (-1 * n))%Z with n by lia. rewrite Z.sgn_pos, Z.abs_eq by lia. simpl IZR. lra.
Qed.

Lemma Forall_lit_neg fv fl :
  Forall (nf_ok fv) fl ->
  (Forall (lit fv) (map Z.opp (map nf_id fl)) <-> Forall (fun f => nf_val f < 0) fl).
Proof.
  induction 1 as [|f fl Hf _ IH]; cbn [map].
  - split; constructor.
  - split; intros H; inversion_clear H; constructor; try (apply IH; assumption);
      now apply (lit_neg fv f Hf).
Qed.

Lemma Exists_lit_pos fv fl :
  Forall (nf_ok fv) fl ->
  (Exists (lit fv) (map nf_id fl) <-> Exists (fun f => 0 < nf_val f) fl).
Proof.
  induction 1 as [|f fl Hf _ IH]; cbn [map].
  - split; intros H; inversion H.
  - split; intros H; inversion_clear H;
      first [left; now apply (lit_pos fv f Hf) | right; now apply IH].
Qed.

(* -b : the point is in the written sub-volume iff it is on the inner side of
   every facet;  +b : iff it is on the outer side of some facet.
   (one facet: the reference becomes the signed id itself) *)
Theorem expand_body_negative fv (fl : list nfacet) (new_key n : Z) :
  Forall (nf_ok fv) fl -> fl <> [] -> (n < 0)%Z ->
  exists t k, expand new_key n None (map nf_id fl) = Ok (t, k) /\
    (den fv t <-> Forall (fun f => nf_val f < 0) fl).
Proof.
  intros Hok Hne Hn. unfold expand.
  assert (Lt : (0 <? n)%Z = false) by (apply Z.ltb_ge; lia).
  assert (Ltn : (n <? 0)%Z = true) by (apply Z.ltb_lt; lia).
  destruct fl as [|f [|g fl]]; [congruence| |].
  - cbn [map]. rewrite Lt. eexists _, _; split; [reflexivity|]. cbn [den].
    inversion_clear Hok. rewrite (lit_neg fv f) by assumption.
    split; intros X; [repeat constructor; assumption|now inversion_clear X].
  - cbn [map]. rewrite Ltn. eexists _, _; split; [reflexivity|]. cbn [den].
    apply (Forall_lit_neg fv (f :: g :: fl) Hok).
Qed.

Theorem expand_body_positive fv (fl : list nfacet) (new_key n : Z) :
  Forall (nf_ok fv) fl -> fl <> [] -> (0 < n)%Z ->
  exists t k, expand new_key n None (map nf_id fl) = Ok (t, k) /\
    (den fv t <-> Exists (fun f => 0 < nf_val f) fl).
Proof.
  intros Hok Hne Hn. unfold expand.
  assert (Lt : (0 <? n)%Z = true) by (apply Z.ltb_lt; lia).
  assert (Ltn : (n <? 0)%Z = false) by (apply Z.ltb_ge; lia).
  destruct fl as [|f [|g fl]]; [congruence| |].
  - cbn [map]. rewrite Lt. eexists _, _; split; [reflexivity|]. cbn [den].
    inversion_clear Hok. rewrite (lit_pos fv f) by assumption.
    split; intros X; [now left|]. inversion_clear X as [? ? X0|? ? X0]; [assumption|]. inversion X0.
  - cbn [map]. rewrite Ltn. eexists _, _; split; [reflexivity|]. cbn [den].
    apply (Exists_lit_pos fv (f :: g :: fl) Hok).
Qed.

(* b.k, 1 <= k <= number of facets: the k-th facet, with the reference's sign;
   no new cell key is consumed *)
Theorem expand_facet fv (fl : list nfacet) (new_key n : Z) (k : nat) (f : nfacet) :
  Forall (nf_ok fv) fl -> nth_error fl k = Some f -> n <> 0%Z ->
  exists t, expand new_key n (Some (S k)) (map nf_id fl) = Ok (t, new_key) /\
    (den fv t <-> if (0 <? n)%Z then 0 < nf_val f else nf_val f < 0).
Proof.
  intros Hok Hk Hn. unfold expand. rewrite map_length.
  assert (Hlen : (k < List.length fl)%nat) by (apply nth_error_Some; congruence).
  destruct (Nat.ltb (List.length fl) (S k)) eqn:E; [apply Nat.ltb_lt in E; lia|].
  cbn [py_index]. rewrite (map_nth_error nf_id _ _ Hk).
  assert (Hf : nf_ok fv f).
  { rewrite Forall_forall in Hok. apply Hok. eapply nth_error_In; eassumption. }
  eexists; split; [reflexivity|]. cbn [den].
  destruct (0 <? n)%Z; [now apply lit_pos | now apply lit_neg].
Qed.

(* k beyond the last facet: the conversion stops (CellConversionError) *)
Theorem expand_facet_out_of_range (ids : list Z) (new_key n : Z) (k : nat) :
  (List.length ids < k)%nat -> expand new_key n (Some k) ids = Err ECellConv.
Proof.
  intros H. unfold expand. apply Nat.ltb_lt in H. now rewrite H.
Qed.

(* the quirk: b.0 passes the range check and Python's index -1 selects the
   LAST facet *)
Theorem expand_facet_zero_is_last (ids : list Z) (new_key n last : Z) :
  expand new_key n (Some O) (ids ++ [last]) =
  Ok (Leaf (if (0 <? n)%Z then last else (- last)%Z), new_key).
Proof.
  unfold expand. cbn [Nat.ltb Nat.leb py_index]. rewrite rev_app_distr. reflexivity.
Qed.

(* ---- number_items for one collection: the ids are side * fresh positive
   number, the first facet keeps the body's own number ---- *)
Fixpoint zseq (start : Z) (len : nat) : list Z :=
  match len with O => [] | S l => start :: zseq (start + 1)%Z l end.

Lemma number_rest_ids (free : Z) (sides : list Z) :
  number_rest free sides =
  map (fun '(s, n) => (s * n)%Z) (combine sides (zseq free (List.length sides))).
Proof.
  revert free. induction sides as [|s r IH]; intros free; [reflexivity|].
  cbn [number_rest List.length zseq combine map]. now rewrite IH.
Qed.

Theorem number_one_ids (key free : Z) (s : Z) (sides : list Z) :
  number_one key free (s :: sides) =
  map (fun '(s, n) => (s * n)%Z)
      (combine (s :: sides) (key :: zseq free (List.length sides))).
Proof. cbn [number_one combine map]. now rewrite number_rest_ids. Qed.

Lemma zseq_pos (start : Z) (len : nat) : (0 < start)%Z -> Forall (fun n => (0 < n)%Z) (zseq start len).
Proof.
  revert start. induction len as [|l IH]; intros start H; constructor; [assumption|].
  apply IH. lia.
Qed.

Lemma zseq_nodup (start : Z) (len : nat) : NoDup (zseq start len).
Proof.
  revert start. induction len as [|l IH]; intros start; constructor; [|apply IH].
  assert (G : forall l s x, In x (zseq s l) -> (s <= x)%Z).
  { clear. induction l as [|l IH]; intros s x; cbn; [tauto|].
    intros [<- | H]; [lia|]. apply IH in H. lia. }
  intros H. apply G in H. lia.
Qed.

(* ---- every side the body functions emit is +1 or -1 ---- *)
Definition side_ok (e : rentry) : Prop := snd e = 1%Z \/ snd e = (-1)%Z.

Ltac crush_sides :=
  repeat match goal with
  | |- (if ?c then _ else _) = Ok _ -> _ => destruct c
  | |- Err _ = Ok _ -> _ => discriminate
  | |- bind ?x _ = Ok _ -> _ => let E := fresh "E" in destruct x eqn:E; cbn [bind]
  | |- (match ?x with _ => _ end) = Ok _ -> _ => destruct x
  end.

Lemma arb_planes_sides vs cen facets es :
  arb_planes RS vs cen facets = Ok es -> Forall side_ok es.
Proof.
  revert es. induction facets as [|f r IH]; intros es; cbn [arb_planes].
  - intros H. inversion H. constructor.
  - destruct (arb_plane RS vs cen f) as [e|] eqn:E1; cbn [bind]; [|discriminate].
    destruct (arb_planes RS vs cen r) as [l|] eqn:E2; cbn [bind]; [|discriminate].
    intros H. inversion H; subst. constructor; [|now apply IH].
    unfold arb_plane in E1. revert E1. crush_sides.
    all: try discriminate.
    all: intros H1; inversion H1; left; reflexivity.
Qed.

Ltac fin :=
  let H := fresh "H" in
  intros H; inversion H; subst; cbn [app]; repeat (apply Forall_cons); try apply Forall_nil;
  unfold side_ok; cbn [snd];
  repeat match goal with |- context [if ?c then _ else _] => destruct c end; auto.

Lemma body_sides_ok b p d es : body_parts RS b p d = Ok es -> Forall side_ok es.
Proof.
  destruct b; cbn [body_parts].
  - unfold box. crush_sides. fin.
  - unfold rpp. crush_sides. fin.
  - unfold sph. crush_sides. fin.
  - unfold rcc, end_planes. crush_sides. fin.
  - unfold rhp, end_planes. crush_sides; fin.
  - unfold rhp, end_planes. crush_sides; fin.
  - unfold rec, end_planes. crush_sides; fin.
  - unfold trc, end_planes. crush_sides; fin.
  - unfold ell, ell_quadric. crush_sides; fin.
  - unfold wed, end_planes. crush_sides; fin.
  - unfold arb. crush_sides. apply arb_planes_sides.
Qed.

(* ---- the whole path: body -> numbered facets -> reference in a cell ---- *)
Definition ety (e : rentry) : stype := fst (fst e).
Definition eprm (e : rentry) : list R := snd (fst e).

(* [ns] are the TRIPOLI-4 ids given to the entries, [fv] evaluates the written
   surfaces at the point p *)
Definition numbered (fv : Z -> R) (p : pt) (es : list rentry) (ns : list Z) : Prop :=
  Forall2 (fun e n => (0 < n)%Z /\ fv n = eval_surf (ety e) (eprm e) p) es ns.

Definition fl_of (p : pt) (es : list rentry) (ns : list Z) : list nfacet :=
  map (fun '(e, n) => (snd e, n, eval_surf (ety e) (eprm e) p)) (combine es ns).

(* what CollectionDict.number_items hands to pot_expand_surfs *)
Definition ids_of (es : list rentry) (ns : list Z) : list Z :=
  map (fun '(e, n) => (snd e * n)%Z) (combine es ns).

Lemma ids_of_fl p es ns : ids_of es ns = map nf_id (fl_of p es ns).
Proof.
  unfold ids_of, fl_of. rewrite map_map. apply map_ext. now intros [[[ty prm] s] n].
Qed.

Lemma entry_value_eq (e : rentry) p : entry_value e p = IZR (snd e) * eval_surf (ety e) (eprm e) p.
Proof. now destruct e as [[ty prm] s]. Qed.

Lemma fl_ok fv p es ns :
  numbered fv p es ns -> Forall side_ok es -> Forall (nf_ok fv) (fl_of p es ns).
Proof.
  induction 1 as [|e n es ns [Hn Hv] _ IH]; intros Hs; [constructor|].
  inversion_clear Hs as [|? ? Hs1 Hs2]. unfold fl_of. cbn [combine map]. constructor; [|now apply IH].
  unfold nf_ok. repeat split; assumption.
Qed.

Lemma fl_negative fv p es ns :
  numbered fv p es ns ->
  (Forall (fun f => nf_val f < 0) (fl_of p es ns) <-> all_negative es p).
Proof.
  unfold all_negative.
  induction 1 as [|e n es ns _ _ IH]; [split; constructor|].
  unfold fl_of. cbn [combine map]. split; intros H; inversion_clear H; constructor;
    try (apply IH; assumption).
  - rewrite entry_value_eq. assumption.
  - unfold nf_val. rewrite <- entry_value_eq. assumption.
Qed.

Lemma fl_positive fv p es ns :
  numbered fv p es ns ->
  (Exists (fun f => 0 < nf_val f) (fl_of p es ns) <-> some_positive es p).
Proof.
  unfold some_positive.
  induction 1 as [|e n es ns _ _ IH]; [split; intros H; inversion H|].
  unfold fl_of. cbn [combine map]. split; intros H; inversion_clear H.
  - left. rewrite entry_value_eq. assumption.
  - right. now apply IH.
  - left. unfold nf_val. rewrite <- entry_value_eq. assumption.
  - right. now apply IH.
Qed.

Lemma fl_nth fv p es ns k e :
  numbered fv p es ns -> nth_error es k = Some e ->
  exists n, nth_error (fl_of p es ns) k = Some (snd e, n, eval_surf (ety e) (eprm e) p).
Proof.
  intros H. revert k. induction H as [|e0 n es ns _ _ IH]; intros [|k]; cbn; try discriminate.
  - intros [= ->]. now exists n.
  - intros Hk. apply IH. exact Hk.
Qed.

Lemma Forall2_len {A B} (P : A -> B -> Prop) l m : Forall2 P l m -> List.length l = List.length m.
Proof. induction 1; cbn; congruence. Qed.

Theorem reference_semantics (es : list rentry) (fs : list (pt -> R)) (ns : list Z)
        (fv : Z -> R) (p : pt) (new_key n : Z) :
  Forall2 same_facet es fs -> Forall side_ok es -> es <> [] -> numbered fv p es ns ->
  (* -b : the solid *)
  ((n < 0)%Z -> exists t k, expand new_key n None (ids_of es ns) = Ok (t, k) /\
                            (den fv t <-> inside_of fs p)) /\
  (* +b : its complement *)
  ((0 < n)%Z -> exists t k, expand new_key n None (ids_of es ns) = Ok (t, k) /\
                            (den fv t <-> outside_of fs p)) /\
  (* b.k : the k-th facet, outward positive *)
  (forall k f, nth_error fs k = Some f -> n <> 0%Z ->
     exists t, expand new_key n (Some (S k)) (ids_of es ns) = Ok (t, new_key) /\
               (den fv t <-> if (0 <? n)%Z then 0 < f p else f p < 0)) /\
  (* b.k beyond the last facet: error *)
  (forall k, (List.length fs < k)%nat ->
     expand new_key n (Some k) (ids_of es ns) = Err ECellConv).
Proof.
  intros Hf Hs Hne Hnum.
  pose proof (fl_ok fv p es ns Hnum Hs) as Hok.
  assert (Hfl : fl_of p es ns <> []).
  { destruct Hnum; [congruence|]. unfold fl_of. cbn [combine map]. discriminate. }
  rewrite (ids_of_fl p). repeat split.
  - intros Hn. destruct (expand_body_negative fv _ new_key n Hok Hfl Hn) as (t & k & E & D).
    exists t, k. split; [exact E|]. rewrite D, (fl_negative fv p es ns Hnum).
    now apply facets_inside.
  - intros Hn. destruct (expand_body_positive fv _ new_key n Hok Hfl Hn) as (t & k & E & D).
    exists t, k. split; [exact E|]. rewrite D, (fl_positive fv p es ns Hnum).
    now apply facets_outside.
  - intros k f Hk Hn.
    assert (exists e, nth_error es k = Some e) as [e He].
    { destruct (nth_error es k) eqn:E; [eauto|]. exfalso.
      apply nth_error_None in E. pose proof (Forall2_len _ _ _ Hf) as L.
      assert (nth_error fs k <> None) by congruence. apply nth_error_Some in H. lia. }
    destruct (fl_nth fv p es ns k e Hnum He) as (m & Hm).
    destruct (expand_facet fv _ new_key n k _ Hok Hm Hn) as (t & E & D).
    exists t. split; [exact E|]. rewrite D.
    destruct (facets_nth es fs k e f Hf He Hk) as (c & Hc & Hv).
    unfold nf_val. rewrite <- entry_value_eq, Hv.
    destruct (0 <? n)%Z; split; intros; nra.
  - intros k Hk. apply expand_facet_out_of_range. rewrite map_length.
    unfold fl_of. rewrite map_length, combine_length.
    pose proof (Forall2_len _ _ _ Hf). pose proof (Forall2_len _ _ _ Hnum). lia.
Qed.

(* ---- number_items over the whole dictionary: every facet of every body gets
   its own TRIPOLI-4 id (no two entries share |id|), the first facet keeps the
   body's number ---- *)
Definition pm1 (s : Z) : Prop := s = 1%Z \/ s = (-1)%Z.

Definition abs_ids (dic : list (Z * list Z)) : list Z :=
  map Z.abs (concat (map snd dic)).

Definition extra (dic : list (Z * list Z)) : Z :=
  fold_right (fun '(_, sides) acc => (Z.of_nat (List.length sides - 1) + acc)%Z) 0%Z dic.

Lemma zseq_range (start : Z) (len : nat) x :
  In x (zseq start len) -> (start <= x < start + Z.of_nat len)%Z.
Proof.
  revert start. induction len as [|l IH]; intros start; cbn [zseq]; [intros []|].
  intros [<- | H]; [lia|]. apply IH in H. lia.
Qed.

Lemma abs_number_one (key free : Z) (sides : list Z) :
  (0 < key)%Z -> (0 < free)%Z -> Forall pm1 sides -> sides <> [] ->
  map Z.abs (number_one key free sides) = key :: zseq free (List.length sides - 1).
Proof.
  intros Hk Hf Hs Hne. destruct sides as [|s sides]; [congruence|].
  inversion_clear Hs as [|? ? H1 H2]. cbn [number_one map List.length Nat.sub].
  rewrite Nat.sub_0_r. f_equal; [destruct H1 as [-> | ->]; lia|].
  revert free Hf. induction H2 as [|t r Ht _ IH]; intros free Hf; [reflexivity|].
  cbn [number_rest map List.length zseq]. f_equal; [destruct Ht as [-> | ->]; lia|].
  apply IH; [discriminate|lia].
Qed.

Lemma NoDup_app_intro {A} (l m : list A) :
  NoDup l -> NoDup m -> (forall x, In x l -> In x m -> False) -> NoDup (l ++ m).
Proof.
  induction 1 as [|a l Ha _ IH]; intros Hm Hd; [exact Hm|].
  cbn [app]. constructor.
  - intros Hin. apply in_app_or in Hin. destruct Hin as [Hin|Hin]; [contradiction|].
    apply (Hd a); [now left|exact Hin].
  - apply IH; [exact Hm|]. intros x Hx. apply Hd. now right.
Qed.

Lemma extra_nonneg (dic : list (Z * list Z)) : (0 <= extra dic)%Z.
Proof.
  unfold extra. induction dic as [|[k s] r IH]; cbn [fold_right]; [lia|].
  pose proof (Nat2Z.is_nonneg (List.length s - 1)). lia.
Qed.

Lemma number_from_layout (dic : list (Z * list Z)) : forall free : Z,
  Forall (fun kv => (0 < fst kv < free)%Z /\ Forall pm1 (snd kv) /\ snd kv <> []) dic ->
  NoDup (map fst dic) ->
  NoDup (abs_ids (number_from free dic)) /\
  Forall (fun x => In x (map fst dic) \/ (free <= x < free + extra dic)%Z)
         (abs_ids (number_from free dic)).
Proof.
  induction dic as [|[key sides] r IH]; intros free Hd Hn.
  - split; constructor.
  - inversion_clear Hd as [|? ? (Hk & Hs & Hne) Hr]. cbn [fst snd] in *.
    inversion_clear Hn as [|? ? Hnotin Hn'].
    set (free' := (free + Z.of_nat (List.length sides - 1))%Z).
    assert (Hr' : Forall (fun kv => (0 < fst kv < free')%Z /\ Forall pm1 (snd kv) /\ snd kv <> []) r).
    { eapply Forall_impl; [|exact Hr]. intros kv (A & B & C). repeat split; try assumption; unfold free'; lia. }
    destruct (IH free' Hr' Hn') as (ND & RG).
    unfold abs_ids in *. cbn [number_from map concat snd]. rewrite map_app.
    rewrite abs_number_one by (try assumption; lia).
    fold free'. change (extra ((key, sides) :: r)) with (Z.of_nat (List.length sides - 1) + extra r)%Z.
    cbn [map fst].
    set (rest := map Z.abs (concat (map snd (number_from free' r)))) in *.
    assert (RestFacts : forall y, In y rest -> In y (map fst r) \/ (free' <= y < free' + extra r)%Z).
    { rewrite Forall_forall in RG. exact RG. }
    assert (KeysSmall : forall y, In y (map fst r) -> (0 < y < free)%Z).
    { intros y Hx. apply in_map_iff in Hx. destruct Hx as (kv & <- & Hin).
      rewrite Forall_forall in Hr. apply (Hr kv Hin). }
    assert (Ex : (0 <= extra r)%Z).
    { apply extra_nonneg. }
    split.
    + cbn [app]. constructor.
      * intros Hin. apply in_app_or in Hin. destruct Hin as [Hin | Hin].
        -- apply zseq_range in Hin. lia.
        -- destruct (RestFacts _ Hin) as [Hk' | Hrange]; [contradiction|]. unfold free' in Hrange. lia.
      * apply NoDup_app_intro; [apply zseq_nodup | exact ND |].
        intros y Hz Hx. apply zseq_range in Hz.
        destruct (RestFacts _ Hx) as [Hk' | Hrange].
        -- apply KeysSmall in Hk'. lia.
        -- unfold free' in Hrange. lia.
    + cbn [app]. constructor; [left; now left|]. apply Forall_app. split.
      * apply Forall_forall. intros y Hz. apply zseq_range in Hz. right. unfold free' in *. lia.
      * apply Forall_forall. intros y Hx. destruct (RestFacts _ Hx) as [Hk' | Hrange].
        -- left. now right.
        -- right. unfold free' in *. lia.
Qed.

Lemma fold_max_ge (l : list Z) : forall k x, (x = k \/ In x l) -> (x <= fold_left Z.max l k)%Z.
Proof.
  induction l as [|a l IH]; intros k x H; cbn [fold_left].
  - destruct H as [-> | []]. lia.
  - destruct H as [E | [E | H]].
    + subst x. specialize (IH (Z.max k a) (Z.max k a) (or_introl eq_refl)). lia.
    + subst a. specialize (IH (Z.max k x) (Z.max k x) (or_introl eq_refl)). lia.
    + apply IH. now right.
Qed.

Lemma max_key_ge (dic : list (Z * list Z)) x : In x (map fst dic) -> (x <= max_key dic)%Z.
Proof.
  destruct dic as [|[k s] r]; [intros []|]. cbn [max_key map fst].
  intros [<- | H]; apply fold_max_ge; auto.
Qed.

Theorem number_items_distinct (dic : list (Z * list Z)) :
  Forall (fun kv => (0 < fst kv)%Z /\ Forall pm1 (snd kv) /\ snd kv <> []) dic ->
  NoDup (map fst dic) ->
  NoDup (abs_ids (number_items dic)).
Proof.
  intros Hd Hn. unfold number_items. apply number_from_layout; [|exact Hn].
  apply Forall_forall. intros kv Hin. rewrite Forall_forall in Hd.
  destruct (Hd kv Hin) as (A & B & C). repeat split; try assumption.
  assert (fst kv <= max_key dic)%Z by (apply max_key_ge; now apply in_map). lia.
Qed.
