(* C03 — bridging lemmas: the model's vector helpers at RS are the Spec's
   operations on points, plus the algebraic identities the facet proofs use. *)
From Coq Require Import List ZArith Bool Reals Lra Lia.
From T4V Require Import Base.Scalar C03.Vec C03.Model C03.Spec.
Import ListNotations.
Open Scope R_scope.

Ltac rs := cbn [s0 s1 sadd ssub smul sdiv sneg sabs ssqrt satan scos ssin spi
                sltb sleb seqb sofZ RS] in *.

Lemma pair3 {A} (a b c a' b' c' : A) :
  a = a' -> b = b' -> c = c' -> (a, b, c) = (a', b', c').
Proof. now intros -> -> ->. Qed.
Ltac v3eq := apply pair3.


Lemma scal_dot (u v : pt) : scal RS u v = dot u v.
Proof. destruct u as [[a b] c], v as [[d e] f]. reflexivity. Qed.

Lemma vect_cross (u v : pt) : vect RS u v = cross u v.
Proof.
  destruct u as [[a b] c], v as [[d e] f]. unfold vect, cross. rs.
  v3eq; ring.
Qed.

Lemma mixed_det (u v w : pt) : mixed RS u v w = det u v w.
Proof. unfold mixed, det. rewrite vect_cross. reflexivity. Qed.

Lemma vsum2_vadd (u v : pt) : vsum2 RS u v = vadd u v.
Proof.
  destruct u as [[a b] c], v as [[d e] f]. unfold vsum2, vsum_list, vadd.
  cbn [fold_left]. rs. v3eq; ring.
Qed.

Lemma vsum3_vadd (u v w : pt) : vsum3 RS u v w = vadd (vadd u v) w.
Proof.
  destruct u as [[a b] c], v as [[d e] f], w as [[g h] i].
  unfold vsum3, vsum_list, vadd. cbn [fold_left]. rs.
  v3eq; ring.
Qed.

Lemma vdiff_vsub (u v : pt) : vdiff RS u v = vsub u v.
Proof. destruct u as [[a b] c], v as [[d e] f]. reflexivity. Qed.

Lemma rescale_vmul (k : R) (u : pt) : rescale RS k u = vmul k u.
Proof. destruct u as [[a b] c]. reflexivity. Qed.

Lemma mag2_norm2 (u : pt) : mag2 RS u = norm2 u.
Proof. unfold mag2, norm2. apply scal_dot. Qed.

Lemma mag_norm (u : pt) : mag RS u = norm u.
Proof. unfold mag, norm. rs. now rewrite mag2_norm2. Qed.

Lemma vlist_pl (u : pt) : vlist u = pl u.
Proof. destruct u as [[a b] c]. reflexivity. Qed.

Lemma plane_np_eq (n q : pt) :
  plane_np RS n q = pl n ++ [dot n q].
Proof. destruct n as [[a b] c]. unfold plane_np. now rewrite scal_dot. Qed.

(* ---- Spec-level algebra ---- *)
Lemma norm2_nonneg (u : pt) : 0 <= norm2 u.
Proof. destruct u as [[a b] c]. unfold norm2, dot. nra. Qed.

Lemma norm2_zero (u : pt) : norm2 u = 0 -> u = (0, 0, 0).
Proof.
  destruct u as [[a b] c]. unfold norm2, dot. intros H.
  assert (a = 0) by nra. assert (b = 0) by nra. assert (c = 0) by nra.
  now subst.
Qed.

Lemma norm2_pos (u : pt) : u <> (0, 0, 0) -> 0 < norm2 u.
Proof.
  intros H. destruct (Rle_lt_or_eq_dec _ _ (norm2_nonneg u)) as [L|E]; [exact L|].
  exfalso. apply H. now apply norm2_zero.
Qed.

Lemma norm_pos (u : pt) : u <> (0, 0, 0) -> 0 < norm u.
Proof. intros H. unfold norm. apply sqrt_lt_R0. now apply norm2_pos. Qed.

Lemma norm_sqr (u : pt) : norm u * norm u = norm2 u.
Proof. unfold norm. apply sqrt_sqrt. apply norm2_nonneg. Qed.

Lemma dot_comm (u v : pt) : dot u v = dot v u.
Proof. destruct u as [[a b] c], v as [[d e] f]. unfold dot. ring. Qed.

Lemma dot_vsub_l (u v w : pt) : dot (vsub u v) w = dot u w - dot v w.
Proof. destruct u as [[a b] c], v as [[d e] f], w as [[g h] i]. unfold dot, vsub. ring. Qed.

Lemma dot_vadd_l (u v w : pt) : dot (vadd u v) w = dot u w + dot v w.
Proof. destruct u as [[a b] c], v as [[d e] f], w as [[g h] i]. unfold dot, vadd. ring. Qed.

Lemma dot_vmul_l (k : R) (u w : pt) : dot (vmul k u) w = k * dot u w.
Proof. destruct u as [[a b] c], w as [[g h] i]. unfold dot, vmul. ring. Qed.

Lemma dot_vsub_r (w u v : pt) : dot w (vsub u v) = dot w u - dot w v.
Proof. rewrite dot_comm, dot_vsub_l. now rewrite (dot_comm u), (dot_comm v). Qed.

Lemma dot_vadd_r (w u v : pt) : dot w (vadd u v) = dot w u + dot w v.
Proof. rewrite dot_comm, dot_vadd_l. now rewrite (dot_comm u), (dot_comm v). Qed.

Lemma dot_vmul_r (k : R) (w u : pt) : dot w (vmul k u) = k * dot w u.
Proof. rewrite dot_comm, dot_vmul_l. now rewrite (dot_comm u). Qed.

(* |a|^2 (b x c) - (a . b x c) a = (a.b)(a x c) - (a.c)(a x b), contracted with q
   (DESIGN 5.4): for a normal to b and c the cross product b x c is parallel
   to a *)
Lemma cross_parallel (a b c q : pt) :
  dot a b = 0 -> dot a c = 0 ->
  norm2 a * dot (cross b c) q = det a b c * dot a q.
Proof.
  destruct a as [[a1 a2] a3], b as [[b1 b2] b3], c as [[c1 c2] c3], q as [[q1 q2] q3].
  unfold norm2, det, dot, cross. intros Hab Hac.
  assert (E : (a1*a1+a2*a2+a3*a3) * ((b2*c3-b3*c2)*q1 + (b3*c1-b1*c3)*q2 + (b1*c2-b2*c1)*q3)
              - (a1*(b2*c3-b3*c2) + a2*(b3*c1-b1*c3) + a3*(b1*c2-b2*c1)) * (a1*q1+a2*q2+a3*q3)
              = (a1*b1+a2*b2+a3*b3) * ((a2*c3-a3*c2)*q1 + (a3*c1-a1*c3)*q2 + (a1*c2-a2*c1)*q3)
              - (a1*c1+a2*c2+a3*c3) * ((a2*b3-a3*b2)*q1 + (a3*b1-a1*b3)*q2 + (a1*b2-a2*b1)*q3))
    by ring.
  rewrite Hab, Hac in E. lra.
Qed.

(* Cramer: det(a,b,c) q = (q.a)(b x c) + (q.b)(c x a) + (q.c)(a x b) for the
   dual basis; here for an orthogonal basis, contracted *)
Lemma cramer (a b c q : pt) :
  vmul (det a b c) q =
  vadd (vmul (dot q (cross b c)) a) (vadd (vmul (dot q (cross c a)) b) (vmul (dot q (cross a b)) c)).
Proof.
  destruct a as [[a1 a2] a3], b as [[b1 b2] b3], c as [[c1 c2] c3], q as [[q1 q2] q3].
  unfold det, dot, cross, vadd, vmul. v3eq; ring.
Qed.

Lemma det_cyc (a b c : pt) : det a b c = det b c a.
Proof.
  destruct a as [[a1 a2] a3], b as [[b1 b2] b3], c as [[c1 c2] c3].
  unfold det, dot, cross. ring.
Qed.

Lemma det_swap (a b c : pt) : det a b c = - det b a c.
Proof.
  destruct a as [[a1 a2] a3], b as [[b1 b2] b3], c as [[c1 c2] c3].
  unfold det, dot, cross. ring.
Qed.

Lemma det_nonzero_l (a b c : pt) : det a b c <> 0 -> a <> (0, 0, 0).
Proof. intros H E. apply H. subst. destruct b as [[b1 b2] b3], c as [[c1 c2] c3].
  unfold det, dot, cross. ring. Qed.

(* decomposition in an orthogonal basis *)
Lemma ortho_decompose (a b c q : pt) :
  dot a b = 0 -> dot a c = 0 -> dot b c = 0 -> det a b c <> 0 ->
  q = vadd (vmul (dot q a / norm2 a) a)
           (vadd (vmul (dot q b / norm2 b) b) (vmul (dot q c / norm2 c) c)).
Proof.
  intros Hab Hac Hbc Hd.
  assert (Ha : 0 < norm2 a) by (apply norm2_pos; now apply (det_nonzero_l a b c)).
  assert (Hb : 0 < norm2 b).
  { apply norm2_pos. apply (det_nonzero_l b c a). now rewrite <- det_cyc. }
  assert (Hc : 0 < norm2 c).
  { apply norm2_pos. apply (det_nonzero_l c a b). now rewrite <- 2 det_cyc. }
  pose proof (cross_parallel a b c q Hab Hac) as E1.
  assert (Hba : dot b a = 0) by now rewrite dot_comm.
  assert (Hca : dot c a = 0) by now rewrite dot_comm.
  assert (Hcb : dot c b = 0) by now rewrite dot_comm.
  pose proof (cross_parallel b c a q Hbc Hba) as E2.
  pose proof (cross_parallel c a b q Hca Hcb) as E3.
  rewrite <- det_cyc in E2. rewrite <- 2 det_cyc in E3.
  pose proof (cramer a b c q) as C.
  rewrite (dot_comm q (cross b c)), (dot_comm q (cross c a)), (dot_comm q (cross a b)) in C.
  set (D := det a b c) in *.
  assert (F1 : dot (cross b c) q = D * (dot q a / norm2 a)).
  { rewrite (dot_comm q a). field_simplify_eq; [|lra]. lra. }
  assert (F2 : dot (cross c a) q = D * (dot q b / norm2 b)).
  { rewrite (dot_comm q b). field_simplify_eq; [|lra]. lra. }
  assert (F3 : dot (cross a b) q = D * (dot q c / norm2 c)).
  { rewrite (dot_comm q c). field_simplify_eq; [|lra]. lra. }
  rewrite F1, F2, F3 in C.
  set (s := dot q a / norm2 a) in *. set (t := dot q b / norm2 b) in *.
  set (u := dot q c / norm2 c) in *.
  clearbody s t u D. clear - C Hd.
  destruct a as [[a1 a2] a3], b as [[b1 b2] b3], c as [[c1 c2] c3], q as [[q1 q2] q3].
  unfold vmul, vadd in *. inversion C as [[C1 C2 C3]].
  v3eq; apply (Rmult_eq_reg_l D); try assumption; lra.
Qed.

(* Gram determinant (Lagrange): completeness of an orthonormal frame *)
Lemma gram (a b q : pt) :
  dot q (cross a b) * dot q (cross a b) =
  norm2 q * norm2 a * norm2 b + 2 * dot q a * dot a b * dot b q
  - norm2 q * (dot a b * dot a b) - norm2 a * (dot b q * dot b q)
  - norm2 b * (dot q a * dot q a).
Proof.
  destruct a as [[a1 a2] a3], b as [[b1 b2] b3], q as [[q1 q2] q3].
  unfold norm2, dot, cross. ring.
Qed.

Lemma parseval (a b q : pt) :
  norm2 a = 1 -> norm2 b = 1 -> dot a b = 0 ->
  norm2 q = sqr (dot a q) + sqr (dot b q) + sqr (dot (cross a b) q).
Proof.
  intros Ha Hb Hab. unfold sqr. rewrite (dot_comm (cross a b) q), gram.
  rewrite Ha, Hb, Hab, (dot_comm q a). ring.
Qed.

(* ---- same_facet bookkeeping ---- *)
Lemma same_facet_plane (n q : pt) (side : Z) (f : pt -> R) (c : R) :
  0 < c ->
  (forall p, IZR side * (dot n p - dot n q) = c * f p) ->
  same_facet (TP, pl n ++ [dot n q], side) f.
Proof.
  intros Hc H. exists c. split; [exact Hc|]. intros p.
  destruct n as [[a b] d]. cbn [pl app entry_value eval_surf]. apply H.
Qed.

Lemma facets_inside (es : list rentry) (fs : list (pt -> R)) (p : pt) :
  Forall2 same_facet es fs -> (all_negative es p <-> inside_of fs p).
Proof.
  unfold all_negative, inside_of. induction 1 as [|e f es fs [c [Hc He]] _ IH].
  - split; constructor.
  - split; intros H; inversion H; subst; constructor; try (apply IH; assumption).
    + rewrite He in *. nra.
    + rewrite He. nra.
Qed.

Lemma facets_outside (es : list rentry) (fs : list (pt -> R)) (p : pt) :
  Forall2 same_facet es fs -> (some_positive es p <-> outside_of fs p).
Proof.
  unfold some_positive, outside_of. induction 1 as [|e f es fs [c [Hc He]] _ IH].
  - split; intros H; inversion H.
  - split; intros H; inversion H; subst.
    + left. rewrite He in *. nra.
    + right. now apply IH.
    + left. rewrite He. nra.
    + right. now apply IH.
Qed.

Lemma facets_nth (es : list rentry) (fs : list (pt -> R)) (k : nat) e f :
  Forall2 same_facet es fs -> nth_error es k = Some e -> nth_error fs k = Some f ->
  same_facet e f.
Proof.
  intros H. revert k. induction H as [|e0 f0 es fs H0 _ IH]; intros [|k]; cbn; intros; try discriminate.
  - now inversion H; inversion H1; subst.
  - eapply IH; eassumption.
Qed.

(* ---- reading the parameter list ---- *)
Lemma length_pl (v : pt) : List.length (pl v) = 3%nat.
Proof. now destruct v as [[a b] c]. Qed.

Lemma v3_at0 (a : pt) r : Model.v3 RS (pl a ++ r) 0 = a.
Proof. now destruct a as [[a1 a2] a3]. Qed.
Lemma v3_skip (a : pt) r i : Model.v3 RS (pl a ++ r) (3 + i) = Model.v3 RS r i.
Proof. now destruct a as [[a1 a2] a3]. Qed.
Lemma v3_at3 (a b : pt) r : Model.v3 RS (pl a ++ pl b ++ r) 3 = b.
Proof. change 3%nat with (3 + 0)%nat. now rewrite v3_skip, v3_at0. Qed.
Lemma v3_at6 (a b c : pt) r : Model.v3 RS (pl a ++ pl b ++ pl c ++ r) 6 = c.
Proof. change 6%nat with (3 + 3)%nat. now rewrite v3_skip, v3_at3. Qed.
Lemma v3_at9 (a b c d : pt) r : Model.v3 RS (pl a ++ pl b ++ pl c ++ pl d ++ r) 9 = d.
Proof. change 9%nat with (3 + 6)%nat. now rewrite v3_skip, v3_at6. Qed.
Lemma v3_at12 (a b c d e : pt) r :
  Model.v3 RS (pl a ++ pl b ++ pl c ++ pl d ++ pl e ++ r) 12 = e.
Proof. change 12%nat with (3 + 9)%nat. now rewrite v3_skip, v3_at9. Qed.

Lemma nth_skip (a : pt) r i d : nth (3 + i) (pl a ++ r) d = nth i r d.
Proof. now destruct a as [[a1 a2] a3]. Qed.
Lemma pl_nil (a : pt) : pl a = pl a ++ [].
Proof. now rewrite app_nil_r. Qed.

(* scal/vdiff/rescale/mag2/mag at RS are convertible with the Spec operations
   (rewriting with them would loop: [dot] itself unifies with [scal RS _ _]) *)
Ltac tospec :=
  repeat rewrite vsum2_vadd; repeat rewrite vsum3_vadd; repeat rewrite vect_cross;
  repeat rewrite plane_np_eq; repeat rewrite vlist_pl;
  change (@mag R RS) with norm in *; change (@mag2 R RS) with norm2 in *;
  change (@scal R RS) with dot in *; change (@vdiff R RS) with vsub in *;
  change (@rescale R RS) with vmul in *; rs.

Lemma Rltb_case (x y : R) : (x < y /\ Rltb x y = true) \/ (y <= x /\ Rltb x y = false).
Proof.
  destruct (Rlt_dec x y) as [L|L]; [left|right]; split; try lra.
  - now apply Rltb_true. - apply Rltb_false; lra.
Qed.
