(* C03 — ARB: every emitted plane is the plane through the first three
   vertices of the facet descriptor, with the vertex centroid on its negative
   side. *)
From Coq Require Import List ZArith NArith Bool Reals Lra Lia.
From T4V Require Import Base.Scalar C03.Vec C03.Model C03.Convert C03.Spec C03.SpecT4
  C03.VecFacts C03.WfFacts C03.ProofsPlanes C03.ProofsQuad.
Import ListNotations.
Open Scope R_scope.

Definition sgn_list (s : R) (l : list R) : list R := map (Rmult s) l.

(* planeParamsFromPoints: the unit normal and its offset, up to a sign *)
Lemma plane_from_points_ok (p1 p2 p3 : pt) :
  let n := cross (vsub p1 p2) (vsub p1 p3) in
  1 / 10000000000 < norm2 n ->
  exists s, (s = 1 \/ s = -1) /\
    plane_from_points RS p1 p2 p3 =
    Ok (pl (vmul (s / norm n) n) ++ [s / norm n * dot n p1]).
Proof.
  intros n. subst n. unfold plane_from_points. tospec.
  remember (cross (vsub p1 p2) (vsub p1 p3)) as n eqn:En. clear En.
  intros Hn.
  assert (Hz : n <> (0, 0, 0)).
  { intros E. rewrite E in Hn. unfold norm2, dot in Hn. lra. }
  pose proof (norm_pos n Hz) as Hp. pose proof (norm_sqr n) as Hs.
  assert (C10 : c1em10 RS = 1 / 10000000000) by reflexivity.
  assert (C14 : c1em14 RS = 1 / 100000000000000) by reflexivity.
  rewrite C10, C14.
  destruct (Rleb (norm2 n) (1 / 10000000000)) eqn:E; [apply Rleb_true in E; lra|].
  rewrite renorm_ok by assumption. cbn [bind].
  destruct n as [[nx ny] nz]. cbn [vmul].
  set (k := 1 / norm (nx, ny, nz)) in *.
  assert (Hk : 0 < k) by (unfold k; apply Rdiv_lt_0_compat; lra).
  assert (U : (k * nx) * (k * nx) + (k * ny) * (k * ny) + (k * nz) * (k * nz) = 1).
  { unfold k. unfold norm2, dot in Hs.
    replace (1 / norm (nx, ny, nz) * nx * (1 / norm (nx, ny, nz) * nx) +
             1 / norm (nx, ny, nz) * ny * (1 / norm (nx, ny, nz) * ny) +
             1 / norm (nx, ny, nz) * nz * (1 / norm (nx, ny, nz) * nz))
      with ((nx * nx + ny * ny + nz * nz) / (norm (nx, ny, nz) * norm (nx, ny, nz)))
      by (field; lra).
    rewrite Hs. unfold norm2, dot in Hn. field. lra. }
  assert (Pos : forall l, l = pl (vmul (1 / norm (nx, ny, nz)) (nx, ny, nz)) ++
                          [1 / norm (nx, ny, nz) * dot (nx, ny, nz) p1] ->
                exists s, (s = 1 \/ s = -1) /\
                  Ok l = Ok (pl (vmul (s / norm (nx, ny, nz)) (nx, ny, nz)) ++
                             [s / norm (nx, ny, nz) * dot (nx, ny, nz) p1])).
  { intros l ->. exists 1. split; [now left|]. reflexivity. }
  assert (Neg : forall l, l = map Ropp (pl (vmul (1 / norm (nx, ny, nz)) (nx, ny, nz)) ++
                          [1 / norm (nx, ny, nz) * dot (nx, ny, nz) p1]) ->
                exists s, (s = 1 \/ s = -1) /\
                  Ok l = Ok (pl (vmul (s / norm (nx, ny, nz)) (nx, ny, nz)) ++
                             [s / norm (nx, ny, nz) * dot (nx, ny, nz) p1])).
  { intros l ->. exists (-1). split; [now right|]. cbn [pl vmul app map].
    repeat f_equal; field; lra. }
  assert (D : dot (k * nx, k * ny, k * nz) p1 = k * dot (nx, ny, nz) p1).
  { destruct p1 as [[x y] z]. unfold dot. ring. }
  rewrite D. fold k in Pos, Neg.
  repeat match goal with
  | |- context [if Rltb ?a ?b then _ else _] =>
      destruct (Rltb_case a b) as [[? ->]|[? ->]];
      [first [apply Pos; cbn [pl vmul app]; reflexivity
             |apply Neg; cbn [pl vmul app map]; reflexivity]|]
  end.
  exfalso. nra.
Qed.

(* admissible facet: three vertex numbers in range, the three vertices not
   (almost) collinear in the code's sense, the centroid off the plane *)

Lemma nth_error_nth {A} (l : list A) i x d : nth_error l i = Some x -> nth i l d = x.
Proof. revert i. induction l; intros [|i]; cbn; intros; try discriminate; [congruence|auto]. Qed.

Lemma arb_plane_ok (vs : list pt) (cen : pt) (f : list nat) :
  facet_admissible vs cen f ->
  exists e, arb_plane RS vs cen f = Ok e /\ entry_wf e /\
    match f with
    | i1 :: i2 :: i3 :: _ =>
        same_facet e (arb_facet (nth i1 vs origin) (nth i2 vs origin) (nth i3 vs origin) cen)
    | _ => False
    end.
Proof.
  intros (i1 & i2 & i3 & rest & p1 & p2 & p3 & -> & E1 & E2 & E3 & Hn & Hs).
  rewrite (nth_error_nth _ _ _ origin E1), (nth_error_nth _ _ _ origin E2),
          (nth_error_nth _ _ _ origin E3).
  unfold arb_plane. cbn [firstn lookup_all]. change (@vec R) with pt in *. rewrite E1, E2, E3. cbn [bind].
  destruct (plane_from_points_ok p1 p2 p3 Hn) as (s & Hsg & ->). cbn [bind].
  set (n := cross (vsub p1 p2) (vsub p1 p3)) in *.
  assert (Hz : n <> (0, 0, 0)).
  { intros E. rewrite E in Hn. unfold norm2, dot in Hn. lra. }
  pose proof (norm_pos n Hz) as Hp.
  set (S0 := dot n (vsub cen p1)) in *.
  assert (V : Model.v3 RS (pl (vmul (s / norm n) n) ++ [s / norm n * dot n p1]) 0
              = vmul (s / norm n) n) by apply v3_at0.
  rewrite V. tospec. rewrite dot_vmul_r, (dot_comm (vsub cen p1) n). fold S0.
  assert (Val : forall (t : R) (p : pt),
            entry_value (TP, pl (vmul (t / norm n) n) ++ [t / norm n * dot n p1], 1%Z) p
            = t / norm n * dot n (vsub p p1)).
  { intros t p. destruct n as [[nx ny] nz]. cbn [pl vmul app entry_value eval_surf].
    rewrite dot_vsub_r. destruct p as [[x y] z]. unfold dot at 1. simpl IZR. unfold dot. ring. }
  assert (Flip : map Ropp (pl (vmul (s / norm n) n) ++ [s / norm n * dot n p1])
                 = pl (vmul (- s / norm n) n) ++ [- s / norm n * dot n p1]).
  { destruct n as [[nx ny] nz]. cbn [pl vmul app map]. repeat f_equal; field; lra. }
  assert (Abs : 0 < Rabs S0) by now apply Rabs_pos_lt.
assert (NZ : forall t, (t = s \/ t = - s) -> vmul (t / norm n) n <> (0, 0, 0)).
  { intros t Ht. apply vmul_nz; [|exact Hz]. unfold Rdiv.
    apply Rmult_integral_contrapositive_currified; [destruct Ht, Hsg; lra|].
    apply Rinv_neq_0_compat; lra. }
  destruct (Rltb_case 0 (s / norm n * S0)) as [[L ->]|[L ->]].
  - eexists; split; [reflexivity|]. rewrite Flip. split; [apply wf_plane, NZ; now right|].
    exists (1 / (norm n * Rabs S0)). split.
    { apply Rdiv_lt_0_compat; [lra|]. now apply Rmult_lt_0_compat. }
    intros p. rewrite Val. unfold arb_facet. fold n S0.
    destruct Hsg as [-> | ->].
    + assert (0 < S0).
      { destruct (Rlt_dec 0 S0); [assumption|exfalso].
        assert (0 < 1 / norm n) by (apply Rdiv_lt_0_compat; lra). nra. }
      rewrite Rabs_right by lra. field. lra.
    + assert (S0 < 0).
      { destruct (Rlt_dec S0 0); [assumption|exfalso].
        assert (0 < 1 / norm n) by (apply Rdiv_lt_0_compat; lra).
        replace (-1 / norm n * S0) with (- (1 / norm n * S0)) in L by (field; lra). nra. }
      rewrite Rabs_left by lra. field. lra.
  - eexists; split; [reflexivity|]. split; [apply wf_plane, NZ; now left|].
    exists (1 / (norm n * Rabs S0)). split.
    { apply Rdiv_lt_0_compat; [lra|]. now apply Rmult_lt_0_compat. }
    intros p. rewrite Val. unfold arb_facet. fold n S0.
    destruct Hsg as [-> | ->].
    + assert (S0 < 0).
      { destruct (Rlt_dec S0 0); [assumption|exfalso].
        assert (0 < 1 / norm n) by (apply Rdiv_lt_0_compat; lra).
        assert (0 < S0) by lra. nra. }
      rewrite Rabs_left by lra. field. lra.
    + assert (0 < S0).
      { destruct (Rlt_dec 0 S0); [assumption|exfalso].
        assert (0 < 1 / norm n) by (apply Rdiv_lt_0_compat; lra).
        replace (-1 / norm n * S0) with (- (1 / norm n * S0)) in L by (field; lra).
        assert (S0 < 0) by lra. nra. }
      rewrite Rabs_right by lra. field. lra.
Qed.

Lemma arb_planes_ok (vs : list pt) (facets : list (list nat)) :
  Forall (facet_admissible vs (centroid_of vs)) facets ->
  exists es, arb_planes RS vs (centroid_of vs) facets = Ok es /\ Forall entry_wf es /\
             Forall2 same_facet es (arb_facets vs facets).
Proof.
  induction 1 as [|f facets Hf _ (es & E & W & F)].
  - exists []. split; [reflexivity|split; constructor].
  - destruct (arb_plane_ok vs (centroid_of vs) f Hf) as (e & Ee & We & Fe).
    cbn [arb_planes]. rewrite Ee, E. cbn [bind].
    eexists; split; [reflexivity|]. split; [now constructor|].
    cbn [arb_facets map]. constructor; [|exact F].
    destruct Hf as (i1 & i2 & i3 & rest & _ & _ & _ & -> & _). exact Fe.
Qed.


Lemma vertices_read (V : list pt) :
  List.length V = 8%nat ->
  map (fun i => Model.v3 RS (flat V) (3 * i)) (seq 0 8) = V.
Proof.
  intros H. do 9 (destruct V as [|[[? ?] ?] V]; try discriminate). reflexivity.
Qed.


Lemma arb_facets_ok_full (V : list pt) (descr : list N) :
  List.length V = 8%nat -> List.length descr = 6%nat ->
  let n := arb_nvert descr in
  let vs := firstn n V in
  (1 <= n <= 8)%nat ->
  Forall (facet_admissible vs (centroid_of vs)) (arb_facet_lists descr) ->
  exists es, arb RS (flat V) descr = Ok es /\ Forall entry_wf es /\
             Forall2 same_facet es (arb_facets vs (arb_facet_lists descr)).
Proof.
  intros HV Hd n vs Hn Adm. unfold arb, len_is.
  assert (LF : List.length (flat V) = 24%nat).
  { do 9 (destruct V as [|[[? ?] ?] V]; try discriminate). reflexivity. }
  rewrite LF, Hd. cbn [Nat.eqb andb negb]. rewrite (vertices_read V HV).
  fold (arb_facet_lists descr). fold (arb_nvert descr). fold n. fold vs.
  assert (Lvs : List.length vs = n).
  { unfold vs. rewrite firstn_length, HV. lia. }
  assert (Hpos : 0 < INR n) by (apply lt_0_INR; lia).
  rewrite divr_ok by (rs; rewrite <- INR_IZR_INZ; lra). cbn [bind]. rs.
  assert (Cen : rescale RS (1 / IZR (Z.of_nat n)) (vsum_list RS vs) = centroid_of vs).
  { unfold centroid_of. rewrite Lvs, <- INR_IZR_INZ. reflexivity. }
  change (@vec R) with pt. fold vs. rewrite Cen. now apply arb_planes_ok.
Qed.

Theorem arb_facets_ok (V : list pt) (descr : list N) :
  List.length V = 8%nat -> List.length descr = 6%nat ->
  let n := arb_nvert descr in
  let vs := firstn n V in
  (1 <= n <= 8)%nat ->
  Forall (facet_admissible vs (centroid_of vs)) (arb_facet_lists descr) ->
  exists es, arb RS (flat V) descr = Ok es /\
             Forall2 same_facet es (arb_facets vs (arb_facet_lists descr)).
Proof.
  intros HV Hd n vs Hn Adm.
  destruct (arb_facets_ok_full V descr HV Hd Hn Adm) as (es & E & _ & F).
  exists es; split; assumption.
Qed.
