(* C03 — the bodies bounded by planes (BOX RPP RHP WED), SPH and RCC: every
   entry the model emits is MCNP's facet of the same number, outward positive,
   and the solid is where all entries are negative. *)
From Coq Require Import List ZArith Bool Reals Lra Lia.
From T4V Require Import Base.Scalar C03.Vec C03.Model C03.Spec C03.VecFacts.
Import ListNotations.
Open Scope R_scope.

Ltac open_body body :=
  unfold body, len_is; rewrite ?app_length, ?length_pl;
  cbn [List.length Nat.add Nat.eqb negb orb].

(* ---------------- BOX ---------------- *)
Definition box_params (v a1 a2 a3 : pt) : list R := pl v ++ pl a1 ++ pl a2 ++ pl a3.

Definition box_admissible (a1 a2 a3 : pt) : Prop :=
  dot a1 a2 = 0 /\ dot a1 a3 = 0 /\ dot a2 a3 = 0 /\ det a1 a2 a3 <> 0.

(* a pair of facets: normal n = (the cross product of the two other edges),
   parallel to the edge a with n.a = D *)
Lemma box_pair (v a n : pt) (D : R) :
  D <> 0 -> 0 < norm2 a ->
  (forall q, norm2 a * dot n q = D * dot a q) ->
  let side := if Rltb (dot n a) 0 then 1%Z else (-1)%Z in
  same_facet (TP, pl n ++ [dot n (vadd v a)], (- side)%Z) (plane_end v a) /\
  same_facet (TP, pl n ++ [dot n v], side) (plane_begin v a).
Proof.
  intros HD Ha Hn side.
  assert (Hna : dot n a = D).
  { pose proof (Hn a) as E. unfold norm2 in *. apply (Rmult_eq_reg_l (dot a a)); lra. }
  assert (Hc : 0 < Rabs D / norm2 a).
  { apply Rdiv_lt_0_compat; [now apply Rabs_pos_lt | exact Ha]. }
  assert (Hq : forall q, dot n q = D / norm2 a * dot a q).
  { intros q. pose proof (Hn q). field_simplify_eq; lra. }
  subst side. rewrite Hna.
  destruct (Rltb_case D 0) as [[L ->]|[L ->]].
  - split; apply same_facet_plane with (c := Rabs D / norm2 a); try exact Hc; intros p;
      unfold plane_end, plane_begin;
      rewrite ?dot_vsub_l, ?dot_vadd_l, !Hq, ?dot_vadd_r, (dot_comm p a), (dot_comm v a);
      rewrite Rabs_left by lra; cbn [Z.opp IZR IPR]; unfold Rdiv; ring.
  - assert (0 < D) by lra.
    split; apply same_facet_plane with (c := Rabs D / norm2 a); try exact Hc; intros p;
      unfold plane_end, plane_begin;
      rewrite ?dot_vsub_l, ?dot_vadd_l, !Hq, ?dot_vadd_r, (dot_comm p a), (dot_comm v a);
      rewrite Rabs_right by lra; cbn [Z.opp IZR IPR]; unfold Rdiv; ring.
Qed.

Theorem box_facets_ok (v a1 a2 a3 : pt) :
  box_admissible a1 a2 a3 ->
  exists es, box RS (box_params v a1 a2 a3) = Ok es /\
             Forall2 same_facet es (box_facets v a1 a2 a3).
Proof.
  intros (H12 & H13 & H23 & HD). unfold box_params.
  open_body @box. rewrite (pl_nil a3), v3_at0, v3_at3, v3_at6, v3_at9. tospec.
  eexists; split; [reflexivity|].
  assert (H21 : dot a2 a1 = 0) by now rewrite dot_comm.
  assert (H31 : dot a3 a1 = 0) by now rewrite dot_comm.
  assert (H32 : dot a3 a2 = 0) by now rewrite dot_comm.
  assert (N1 : 0 < norm2 a1) by (apply norm2_pos; now apply (det_nonzero_l a1 a2 a3)).
  assert (N2 : 0 < norm2 a2).
  { apply norm2_pos. apply (det_nonzero_l a2 a3 a1). now rewrite <- det_cyc. }
  assert (N3 : 0 < norm2 a3).
  { apply norm2_pos. apply (det_nonzero_l a3 a1 a2). now rewrite <- 2 det_cyc. }
  destruct (box_pair v a1 (cross a2 a3) (det a1 a2 a3) HD N1) as [F1 F2].
  { intros q. now apply cross_parallel. }
  destruct (box_pair v a2 (cross a3 a1) (det a1 a2 a3) HD N2) as [F3 F4].
  { intros q. rewrite (det_cyc a1 a2 a3). now apply cross_parallel. }
  destruct (box_pair v a3 (cross a1 a2) (det a1 a2 a3) HD N3) as [F5 F6].
  { intros q. rewrite (det_cyc a1 a2 a3), (det_cyc a2 a3 a1). now apply cross_parallel. }
  unfold box_facets. repeat (constructor; [assumption|]). constructor.
Qed.

(* the solid itself: v + s a1 + t a2 + u a3, 0 < s, t, u < 1 *)
Lemma box_inside_facets (v a1 a2 a3 p : pt) :
  box_admissible a1 a2 a3 ->
  (box_inside v a1 a2 a3 p <-> inside_of (box_facets v a1 a2 a3) p).
Proof.
  intros (H12 & H13 & H23 & HD).
  assert (H21 : dot a2 a1 = 0) by now rewrite dot_comm.
  assert (H31 : dot a3 a1 = 0) by now rewrite dot_comm.
  assert (H32 : dot a3 a2 = 0) by now rewrite dot_comm.
  assert (N1 : 0 < norm2 a1) by (apply norm2_pos; now apply (det_nonzero_l a1 a2 a3)).
  assert (N2 : 0 < norm2 a2).
  { apply norm2_pos. apply (det_nonzero_l a2 a3 a1). now rewrite <- det_cyc. }
  assert (N3 : 0 < norm2 a3).
  { apply norm2_pos. apply (det_nonzero_l a3 a1 a2). now rewrite <- 2 det_cyc. }
  unfold inside_of, box_facets, plane_end, plane_begin. split.
  - intros (s & t & u & Hs & Ht & Hu & ->).
    assert (E : forall w, dot (vsub (vadd v (vadd (vmul s a1) (vadd (vmul t a2) (vmul u a3)))) v) w
                          = s * dot a1 w + t * dot a2 w + u * dot a3 w).
    { intros w. rewrite dot_vsub_l, !dot_vadd_l, !dot_vmul_l. ring. }
    repeat (apply Forall_cons); [ .. | apply Forall_nil]; cbv beta;
      rewrite ?(dot_vsub_l _ a1 a1), ?(dot_vsub_l _ a2 a2), ?(dot_vsub_l _ a3 a3), E; rewrite ?H12, ?H13, ?H23, ?H21, ?H31, ?H32;
      fold (norm2 a1) (norm2 a2) (norm2 a3).
    all: nra.
  - intros H. repeat match goal with H : Forall _ (_ :: _) |- _ => inversion_clear H end.
    set (q := vsub p v) in *.
    rewrite (dot_vsub_l q a1 a1), (dot_vsub_l q a2 a2), (dot_vsub_l q a3 a3) in *.
    fold (norm2 a1) (norm2 a2) (norm2 a3) in *.
    exists (dot q a1 / norm2 a1), (dot q a2 / norm2 a2), (dot q a3 / norm2 a3).
    assert (forall x n, 0 < n -> x - n < 0 -> - x < 0 -> 0 < x / n < 1) as Rng.
    { intros x n Hn Hx1 Hx2. split.
      - apply Rdiv_lt_0_compat; lra.
      - apply (Rmult_lt_reg_r n); [lra|]. unfold Rdiv. rewrite Rmult_assoc, Rinv_l; lra. }
    split; [now apply Rng|]. split; [now apply Rng|]. split; [now apply Rng|].
    pose proof (ortho_decompose a1 a2 a3 q H12 H13 H23 HD) as E.
    rewrite <- E. subst q. destruct p as [[p1 p2] p3], v as [[v1 v2] v3].
    unfold vadd, vsub. apply pair3; ring.
Qed.

(* ---------------- RPP ---------------- *)
Theorem rpp_facets_ok (x0 x1 y0 y1 z0 z1 : R) :
  exists es, rpp RS [x0; x1; y0; y1; z0; z1] = Ok es /\
             Forall2 same_facet es (rpp_facets x0 x1 y0 y1 z0 z1).
Proof.
  eexists; split; [reflexivity|]. unfold rpp_facets. rs.
  repeat (constructor; [exists 1; split; [lra|]; intros [[x y] z];
                        cbn [nth entry_value eval_surf dot IZR IPR]; ring|]).
  constructor.
Qed.

Lemma rpp_inside_facets (x0 x1 y0 y1 z0 z1 : R) (p : pt) :
  rpp_inside x0 x1 y0 y1 z0 z1 p <-> inside_of (rpp_facets x0 x1 y0 y1 z0 z1) p.
Proof.
  destruct p as [[x y] z]. unfold rpp_inside, inside_of, rpp_facets. split.
  - intros (Hx & Hy & Hz). repeat constructor; lra.
  - intros H. repeat match goal with H : Forall _ (_ :: _) |- _ => inversion_clear H end. lra.
Qed.

(* ---------------- SPH ---------------- *)
Theorem sph_facets_ok (c : pt) (r : R) :
  exists es, sph (pl c ++ [r]) = Ok es /\ Forall2 same_facet es (sph_facets c r).
Proof.
  destruct c as [[cx cy] cz]. eexists; split; [reflexivity|].
  constructor; [|constructor]. exists 1. split; [lra|]. intros p.
  cbn [pl app entry_value eval_surf IZR IPR]. ring.
Qed.

Lemma sph_inside_facets (c : pt) (r : R) (p : pt) :
  sph_inside c r p <-> inside_of (sph_facets c r) p.
Proof.
  unfold sph_inside, inside_of, sph_facets.
  pose proof (norm2_nonneg (vsub p c)) as Hn.
  rewrite <- (sqrt_Rsqr_abs r). unfold Rsqr. split.
  - intros H. constructor; [|constructor].
    apply sqrt_lt_0_alt in H. lra.
  - intros H. inversion_clear H. apply sqrt_lt_1_alt. split; [exact Hn|lra].
Qed.

(* ---------------- the two end planes ---------------- *)
Lemma end_planes_ok (v h : pt) :
  Forall2 same_facet (end_planes RS v h) [plane_end v h; plane_begin v h].
Proof.
  unfold end_planes. tospec.
  constructor; [|constructor; [|constructor]];
    apply same_facet_plane with (c := 1); try lra; intros p;
    unfold plane_end, plane_begin; rewrite ?dot_vsub_l, ?dot_vadd_r;
    rewrite (dot_comm p h), (dot_comm v h); cbn [IZR IPR]; ring.
Qed.

(* ---------------- RCC ---------------- *)
Theorem rcc_facets_ok (v h : pt) (r : R) :
  h <> (0, 0, 0) ->
  exists es, rcc RS (pl v ++ pl h ++ [r]) = Ok es /\
             Forall2 same_facet es (rcc_facets v h r).
Proof.
  intros Hh. open_body @rcc. rewrite v3_at0, v3_at3.
  change 6%nat with (3 + (3 + 0))%nat. rewrite !nth_skip. cbn [nth].
  eexists; split; [reflexivity|]. unfold rcc_facets.
  constructor; [|apply end_planes_ok].
  pose proof (norm2_pos h Hh) as Hn.
  exists (norm2 h). split; [exact Hn|]. intros p.
  rewrite !vlist_pl. destruct v as [[vx vy] vz], h as [[hx hy] hz].
  cbn [vlist pl app entry_value eval_surf IZR IPR]. unfold perp2, sqr, norm2, dot, vsub in *. destruct p as [[x y] z]. field. lra.
Qed.

(* the solid: v + t h + w, 0 < t < 1, w normal to h, |w| < |r| *)
Lemma rcc_inside_facets (v h : pt) (r : R) (p : pt) :
  h <> (0, 0, 0) ->
  (rcc_inside v h r p <-> inside_of (rcc_facets v h r) p).
Proof.
  intros Hh. pose proof (norm2_pos h Hh) as Hn.
  unfold rcc_inside, inside_of, rcc_facets, plane_end, plane_begin. split.
  - intros (t & w & Ht & Hw & Hr & ->).
    assert (E : vsub (vadd v (vadd (vmul t h) w)) v = vadd (vmul t h) w).
    { destruct v as [[v1 v2] v3], h as [[h1 h2] h3], w as [[w1 w2] w3].
      unfold vsub, vadd, vmul. apply pair3; ring. }
    assert (D : dot (vadd (vmul t h) w) h = t * norm2 h).
    { rewrite dot_vadd_l, dot_vmul_l, Hw. unfold norm2. ring. }
    apply Forall_cons; [|apply Forall_cons; [|apply Forall_cons; [|apply Forall_nil]]];
      cbv beta; rewrite E.
    + unfold perp2, sqr. rewrite D.
      assert (N : norm2 (vadd (vmul t h) w) = t * t * norm2 h + norm2 w).
      { unfold norm2 at 1. rewrite dot_vadd_l, !dot_vadd_r, !dot_vmul_l, !dot_vmul_r.
        rewrite (dot_comm h w), Hw. unfold norm2. ring. }
      rewrite N. replace (t * norm2 h * (t * norm2 h) / norm2 h) with (t * t * norm2 h)
        by (field; lra). lra.
    + rewrite dot_vsub_l, D. fold (norm2 h). nra.
    + rewrite D. nra.
  - intros H. repeat match goal with H : Forall _ (_ :: _) |- _ => inversion_clear H end.
    set (q := vsub p v) in *. rewrite (dot_vsub_l q h h) in *. fold (norm2 h) in *.
    exists (dot q h / norm2 h), (vsub q (vmul (dot q h / norm2 h) h)).
    split; [|split; [|split]].
    + split; [apply Rdiv_lt_0_compat; lra|].
      apply (Rmult_lt_reg_r (norm2 h)); [lra|]. unfold Rdiv. rewrite Rmult_assoc, Rinv_l; lra.
    + rewrite dot_vsub_l, dot_vmul_l. fold (norm2 h). field. lra.
    + unfold perp2, sqr in *. unfold norm2 at 1.
      rewrite dot_vsub_l, !dot_vsub_r, !dot_vmul_l, !dot_vmul_r.
      fold (norm2 h) (norm2 q). rewrite (dot_comm h q).
      match goal with |- ?L < _ =>
        replace L with (norm2 q - dot q h * dot q h / norm2 h) by (field; lra) end. lra.
    + subst q. destruct p as [[p1 p2] p3], v as [[v1 v2] v3], h as [[h1 h2] h3].
      unfold vadd, vsub, vmul. apply pair3; ring.
Qed.
