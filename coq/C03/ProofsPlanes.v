(* C03 — the bodies bounded by planes (BOX RPP RHP WED), SPH and RCC: every
   entry the model emits is MCNP's facet of the same number, outward positive,
   and the solid is where all entries are negative. *)
From Coq Require Import List ZArith Bool Reals Lra Lia.
From T4V Require Import Base.Scalar C03.Vec C03.Model C03.Convert C03.Spec C03.SpecT4
  C03.VecFacts C03.WfFacts.
Import ListNotations.
Open Scope R_scope.

Ltac open_body body :=
  unfold body, len_is; rewrite ?app_length, ?length_pl;
  cbn [List.length Nat.add Nat.eqb negb orb].

(* ---------------- BOX ---------------- *)


(* a pair of facets: normal n = (the cross product of the two other edges),
   parallel to the edge a with n.a = D *)
Lemma box_pair (v a n : pt) (D : R) :
  D <> 0 -> 0 < norm2 a ->
  (forall q, norm2 a * dot n q = D * dot a q) ->
  let side := if Rltb (dot n a) 0 then 1%Z else (-1)%Z in
  same_facet (TP, pl n ++ [dot n (vadd v a)], (- side)%Z) (plane_end v a) /\
  same_facet (TP, pl n ++ [dot n v], side) (plane_begin v a).
Proof.
  intros HD Ha Hn side.
  assert (Hna : dot n a = D).
  { pose proof (Hn a) as E. unfold norm2 in *. apply (Rmult_eq_reg_l (dot a a)); lra. }
  assert (Hc : 0 < Rabs D / norm2 a).
  { apply Rdiv_lt_0_compat; [now apply Rabs_pos_lt | exact Ha]. }
  assert (Hq : forall q, dot n q = D / norm2 a * dot a q).
  { intros q. pose proof (Hn q). field_simplify_eq; lra. }
  subst side. rewrite Hna.
  destruct (Rltb_case D 0) as [[L ->]|[L ->]].
  - split; apply same_facet_plane with (c := Rabs D / norm2 a); try exact Hc; intros p;
      unfold plane_end, plane_begin;
      rewrite ?dot_vsub_l, ?dot_vadd_l, !Hq, ?dot_vadd_r, (dot_comm p a), (dot_comm v a);
      rewrite Rabs_left by lra; cbn [Z.opp IZR IPR]; unfold Rdiv; ring.
  - assert (0 < D) by lra.
    split; apply same_facet_plane with (c := Rabs D / norm2 a); try exact Hc; intros p;
      unfold plane_end, plane_begin;
      rewrite ?dot_vsub_l, ?dot_vadd_l, !Hq, ?dot_vadd_r, (dot_comm p a), (dot_comm v a);
      rewrite Rabs_right by lra; cbn [Z.opp IZR IPR]; unfold Rdiv; ring.
Qed.

Lemma box_facets_ok_full (v a1 a2 a3 : pt) :
  box_admissible a1 a2 a3 ->
  exists es, box RS (pl v ++ pl a1 ++ pl a2 ++ pl a3) = Ok es /\ Forall entry_wf es /\
             Forall2 same_facet es (box_facets v a1 a2 a3).
Proof.
  intros (H12 & H13 & H23 & HD).
  open_body @box. rewrite (pl_nil a3), v3_at0, v3_at3, v3_at6, v3_at9. tospec.
  eexists; split; [reflexivity|].
  split; [destruct (cross_nz a1 a2 a3 HD) as (C1 & C2 & C3); wf_planes|].
  assert (H21 : dot a2 a1 = 0) by now rewrite dot_comm.
  assert (H31 : dot a3 a1 = 0) by now rewrite dot_comm.
  assert (H32 : dot a3 a2 = 0) by now rewrite dot_comm.
  assert (N1 : 0 < norm2 a1) by (apply norm2_pos; now apply (det_nonzero_l a1 a2 a3)).
  assert (N2 : 0 < norm2 a2).
  { apply norm2_pos. apply (det_nonzero_l a2 a3 a1). now rewrite <- det_cyc. }
  assert (N3 : 0 < norm2 a3).
  { apply norm2_pos. apply (det_nonzero_l a3 a1 a2). now rewrite <- 2 det_cyc. }
  destruct (box_pair v a1 (cross a2 a3) (det a1 a2 a3) HD N1) as [F1 F2].
  { intros q. now apply cross_parallel. }
  destruct (box_pair v a2 (cross a3 a1) (det a1 a2 a3) HD N2) as [F3 F4].
  { intros q. rewrite (det_cyc a1 a2 a3). now apply cross_parallel. }
  destruct (box_pair v a3 (cross a1 a2) (det a1 a2 a3) HD N3) as [F5 F6].
  { intros q. rewrite (det_cyc a1 a2 a3), (det_cyc a2 a3 a1). now apply cross_parallel. }
  unfold box_facets. repeat (constructor; [assumption|]). constructor.
Qed.

Theorem box_facets_ok (v a1 a2 a3 : pt) :
  box_admissible a1 a2 a3 ->
  exists es, box RS (pl v ++ pl a1 ++ pl a2 ++ pl a3) = Ok es /\
             Forall2 same_facet es (box_facets v a1 a2 a3).
Proof.
  intros. edestruct (box_facets_ok_full v a1 a2 a3) as (es & E & _ & F); try eassumption.
  exists es; split; assumption.
Qed.

(* the solid itself: v + s a1 + t a2 + u a3, 0 < s, t, u < 1 *)
Lemma box_inside_facets (v a1 a2 a3 p : pt) :
  box_admissible a1 a2 a3 ->
  (box_inside v a1 a2 a3 p <-> inside_of (box_facets v a1 a2 a3) p).
Proof.
  intros (H12 & H13 & H23 & HD).
  assert (H21 : dot a2 a1 = 0) by now rewrite dot_comm.
  assert (H31 : dot a3 a1 = 0) by now rewrite dot_comm.
  assert (H32 : dot a3 a2 = 0) by now rewrite dot_comm.
  assert (N1 : 0 < norm2 a1) by (apply norm2_pos; now apply (det_nonzero_l a1 a2 a3)).
  assert (N2 : 0 < norm2 a2).
  { apply norm2_pos. apply (det_nonzero_l a2 a3 a1). now rewrite <- det_cyc. }
  assert (N3 : 0 < norm2 a3).
  { apply norm2_pos. apply (det_nonzero_l a3 a1 a2). now rewrite <- 2 det_cyc. }
  unfold inside_of, box_facets, plane_end, plane_begin. split.
  - intros (s & t & u & Hs & Ht & Hu & ->).
    assert (E : forall w, dot (vsub (vadd v (vadd (vmul s a1) (vadd (vmul t a2) (vmul u a3)))) v) w
                          = s * dot a1 w + t * dot a2 w + u * dot a3 w).
    { intros w. rewrite dot_vsub_l, !dot_vadd_l, !dot_vmul_l. ring. }
    repeat (apply Forall_cons); [ .. | apply Forall_nil]; cbv beta;
      rewrite ?(dot_vsub_l _ a1 a1), ?(dot_vsub_l _ a2 a2), ?(dot_vsub_l _ a3 a3), E; rewrite ?H12, ?H13, ?H23, ?H21, ?H31, ?H32;
      fold (norm2 a1) (norm2 a2) (norm2 a3).
    all: nra.
  - intros H. repeat match goal with H : Forall _ (_ :: _) |- _ => inversion_clear H end.
    set (q := vsub p v) in *.
    rewrite (dot_vsub_l q a1 a1), (dot_vsub_l q a2 a2), (dot_vsub_l q a3 a3) in *.
    fold (norm2 a1) (norm2 a2) (norm2 a3) in *.
    exists (dot q a1 / norm2 a1), (dot q a2 / norm2 a2), (dot q a3 / norm2 a3).
    assert (forall x n, 0 < n -> x - n < 0 -> - x < 0 -> 0 < x / n < 1) as Rng.
    { intros x n Hn Hx1 Hx2. split.
      - apply Rdiv_lt_0_compat; lra.
      - apply (Rmult_lt_reg_r n); [lra|]. unfold Rdiv. rewrite Rmult_assoc, Rinv_l; lra. }
    split; [now apply Rng|]. split; [now apply Rng|]. split; [now apply Rng|].
    pose proof (ortho_decompose a1 a2 a3 q H12 H13 H23 HD) as E.
    rewrite <- E. subst q. destruct p as [[p1 p2] p3], v as [[v1 v2] v3].
    unfold vadd, vsub. apply pair3; ring.
Qed.

(* ---------------- RPP ---------------- *)
Lemma rpp_facets_ok_full (x0 x1 y0 y1 z0 z1 : R) :
  exists es, rpp RS [x0; x1; y0; y1; z0; z1] = Ok es /\ Forall entry_wf es /\
             Forall2 same_facet es (rpp_facets x0 x1 y0 y1 z0 z1).
Proof.
  eexists; split; [reflexivity|].
  split; [rs; repeat (apply Forall_cons; [cbn [entry_wf]; intros E; injection E; intros; lra|]); apply Forall_nil|]. unfold rpp_facets. rs.
  repeat (constructor; [exists 1; split; [lra|]; intros [[x y] z];
                        cbn [nth entry_value eval_surf dot IZR IPR]; ring|]).
  constructor.
Qed.

Theorem rpp_facets_ok (x0 x1 y0 y1 z0 z1 : R) :
  exists es, rpp RS [x0; x1; y0; y1; z0; z1] = Ok es /\
             Forall2 same_facet es (rpp_facets x0 x1 y0 y1 z0 z1).
Proof.
  intros. edestruct (rpp_facets_ok_full x0 x1 y0 y1 z0 z1) as (es & E & _ & F); try eassumption.
  exists es; split; assumption.
Qed.

Lemma rpp_inside_facets (x0 x1 y0 y1 z0 z1 : R) (p : pt) :
  rpp_inside x0 x1 y0 y1 z0 z1 p <-> inside_of (rpp_facets x0 x1 y0 y1 z0 z1) p.
Proof.
  destruct p as [[x y] z]. unfold rpp_inside, inside_of, rpp_facets. split.
  - intros (Hx & Hy & Hz). repeat constructor; lra.
  - intros H. repeat match goal with H : Forall _ (_ :: _) |- _ => inversion_clear H end. lra.
Qed.

(* ---------------- SPH ---------------- *)
Lemma sph_facets_ok_full (c : pt) (r : R) :
  exists es, sph (pl c ++ [r]) = Ok es /\ Forall entry_wf es /\ Forall2 same_facet es (sph_facets c r).
Proof.
  destruct c as [[cx cy] cz]. eexists; split; [reflexivity|].
  split; [constructor; [exact I|constructor]|].
  constructor; [|constructor]. exists 1. split; [lra|]. intros p.
  cbn [pl app entry_value eval_surf IZR IPR]. ring.
Qed.

Theorem sph_facets_ok (c : pt) (r : R) :
  exists es, sph (pl c ++ [r]) = Ok es /\ Forall2 same_facet es (sph_facets c r).
Proof.
  intros. edestruct (sph_facets_ok_full c r) as (es & E & _ & F); try eassumption.
  exists es; split; assumption.
Qed.

Lemma sph_inside_facets (c : pt) (r : R) (p : pt) :
  sph_inside c r p <-> inside_of (sph_facets c r) p.
Proof.
  unfold sph_inside, inside_of, sph_facets.
  pose proof (norm2_nonneg (vsub p c)) as Hn.
  rewrite <- (sqrt_Rsqr_abs r). unfold Rsqr. split.
  - intros H. constructor; [|constructor].
    apply sqrt_lt_0_alt in H. lra.
  - intros H. inversion_clear H. apply sqrt_lt_1_alt. split; [exact Hn|lra].
Qed.

(* ---------------- the two end planes ---------------- *)
Lemma end_planes_ok (v h : pt) :
  Forall2 same_facet (end_planes RS v h) [plane_end v h; plane_begin v h].
Proof.
  unfold end_planes. tospec.
  constructor; [|constructor; [|constructor]];
    apply same_facet_plane with (c := 1); try lra; intros p;
    unfold plane_end, plane_begin; rewrite ?dot_vsub_l, ?dot_vadd_r;
    rewrite (dot_comm p h), (dot_comm v h); cbn [IZR IPR]; ring.
Qed.

(* ---------------- RCC ---------------- *)
Lemma rcc_facets_ok_full (v h : pt) (r : R) :
  h <> (0, 0, 0) ->
  exists es, rcc RS (pl v ++ pl h ++ [r]) = Ok es /\ Forall entry_wf es /\
             Forall2 same_facet es (rcc_facets v h r).
Proof.
  intros Hh. open_body @rcc. rewrite v3_at0, v3_at3.
  change 6%nat with (3 + (3 + 0))%nat. rewrite !nth_skip. cbn [nth].
  eexists; split; [reflexivity|].
  split; [constructor; [rewrite !vlist_pl; now apply wf_cyl | now apply wf_end_planes]|]. unfold rcc_facets.
  constructor; [|apply end_planes_ok].
  pose proof (norm2_pos h Hh) as Hn.
  exists (norm2 h). split; [exact Hn|]. intros p.
  rewrite !vlist_pl. destruct v as [[vx vy] vz], h as [[hx hy] hz].
  cbn [vlist pl app entry_value eval_surf IZR IPR]. unfold perp2, sqr, norm2, dot, vsub in *. destruct p as [[x y] z]. field. lra.
Qed.

Theorem rcc_facets_ok (v h : pt) (r : R) :
  h <> (0, 0, 0) ->
  exists es, rcc RS (pl v ++ pl h ++ [r]) = Ok es /\
             Forall2 same_facet es (rcc_facets v h r).
Proof.
  intros. edestruct (rcc_facets_ok_full v h r) as (es & E & _ & F); try eassumption.
  exists es; split; assumption.
Qed.

(* the solid: v + t h + w, 0 < t < 1, w normal to h, |w| < |r| *)
Lemma rcc_inside_facets (v h : pt) (r : R) (p : pt) :
  h <> (0, 0, 0) ->
  (rcc_inside v h r p <-> inside_of (rcc_facets v h r) p).
Proof.
  intros Hh. pose proof (norm2_pos h Hh) as Hn.
  unfold rcc_inside, inside_of, rcc_facets, plane_end, plane_begin. split.
  - intros (t & w & Ht & Hw & Hr & ->).
    assert (E : vsub (vadd v (vadd (vmul t h) w)) v = vadd (vmul t h) w).
    { destruct v as [[v1 v2] v3], h as [[h1 h2] h3], w as [[w1 w2] w3].
      unfold vsub, vadd, vmul. apply pair3; ring. }
    assert (D : dot (vadd (vmul t h) w) h = t * norm2 h).
    { rewrite dot_vadd_l, dot_vmul_l, Hw. unfold norm2. ring. }
    apply Forall_cons; [|apply Forall_cons; [|apply Forall_cons; [|apply Forall_nil]]];
      cbv beta; rewrite E.
    + unfold perp2, sqr. rewrite D.
      assert (N : norm2 (vadd (vmul t h) w) = t * t * norm2 h + norm2 w).
      { unfold norm2 at 1. rewrite dot_vadd_l, !dot_vadd_r, !dot_vmul_l, !dot_vmul_r.
        rewrite (dot_comm h w), Hw. unfold norm2. ring. }
      rewrite N. replace (t * norm2 h * (t * norm2 h) / norm2 h) with (t * t * norm2 h)
        by (field; lra). lra.
    + rewrite dot_vsub_l, D. fold (norm2 h). nra.
    + rewrite D. nra.
  - intros H. repeat match goal with H : Forall _ (_ :: _) |- _ => inversion_clear H end.
    set (q := vsub p v) in *. rewrite (dot_vsub_l q h h) in *. fold (norm2 h) in *.
    exists (dot q h / norm2 h), (vsub q (vmul (dot q h / norm2 h) h)).
    split; [|split; [|split]].
    + split; [apply Rdiv_lt_0_compat; lra|].
      apply (Rmult_lt_reg_r (norm2 h)); [lra|]. unfold Rdiv. rewrite Rmult_assoc, Rinv_l; lra.
    + rewrite dot_vsub_l, dot_vmul_l. fold (norm2 h). field. lra.
    + unfold perp2, sqr in *. unfold norm2 at 1.
      rewrite dot_vsub_l, !dot_vsub_r, !dot_vmul_l, !dot_vmul_r.
      fold (norm2 h) (norm2 q). rewrite (dot_comm h q).
      match goal with |- ?L < _ =>
        replace L with (norm2 q - dot q h * dot q h / norm2 h) by (field; lra) end. lra.
    + subst q. destruct p as [[p1 p2] p3], v as [[v1 v2] v3], h as [[h1 h2] h3].
      unfold vadd, vsub, vmul. apply pair3; ring.
Qed.

(* ---------------- RHP / HEX ---------------- *)
Lemma rhp_pair_ok (v w : pt) :
  Forall2 same_facet
    [ (TP, plane_np RS w (vsum2 RS v w), 1%Z); (TP, plane_np RS w (vdiff RS v w), (-1)%Z) ]
    [ plane_end v w; plane_opposite v w ].
Proof.
  tospec.
  constructor; [|constructor; [|constructor]];
    apply same_facet_plane with (c := 1); try lra; intros p;
    unfold plane_end, plane_opposite;
    rewrite ?dot_vsub_l, ?dot_vadd_l, ?dot_vsub_r, ?dot_vadd_r, ?dot_vsub_l;
    rewrite (dot_comm p w), (dot_comm v w); cbn [IZR IPR]; ring.
Qed.

Lemma Forall2_app3 {A B} (P : A -> B -> Prop) l1 l2 l3 l4 m1 m2 m3 m4 :
  Forall2 P l1 m1 -> Forall2 P l2 m2 -> Forall2 P l3 m3 -> Forall2 P l4 m4 ->
  Forall2 P (l1 ++ l2 ++ l3 ++ l4) (m1 ++ m2 ++ m3 ++ m4).
Proof. intros. repeat apply Forall2_app; assumption. Qed.

(* fifteen entries: the three facet vectors are given *)
Theorem rhp15_facets_ok (v h r s t : pt) :
  exists es, rhp RS (pl v ++ pl h ++ pl r ++ pl s ++ pl t) = Ok es /\
             Forall2 same_facet es (rhp_facets v h r s t).
Proof.
  open_body @rhp. rewrite (pl_nil t), v3_at0, v3_at3, v3_at6, v3_at9, v3_at12.
  cbn [bind]. eexists; split; [reflexivity|].
  change (rhp_facets v h r s t) with
    ([plane_end v r; plane_opposite v r] ++ [plane_end v s; plane_opposite v s] ++
     [plane_end v t; plane_opposite v t] ++ [plane_end v h; plane_begin v h]).
  apply Forall2_app3; try apply rhp_pair_ok. apply end_planes_ok.
Qed.

(* nine entries: regular prism, s and t are r turned by 60 and 120 degrees
   about h *)
Lemma renorm_ok (h : pt) :
  h <> (0, 0, 0) -> renorm RS h = Ok (vmul (1 / norm h) h).
Proof.
  intros Hh. unfold renorm, renorm_to, divr. tospec.
  pose proof (norm_pos h Hh) as Hn.
  destruct (Reqb (norm h) 0) eqn:E; [apply Reqb_true in E; lra|]. reflexivity.
Qed.

Lemma rotate_turn (h r : pt) (th : R) :
  h <> (0, 0, 0) -> dot r h = 0 ->
  rotate RS r (vmul (1 / norm h) h) th = turn h r (cos th) (sin th).
Proof.
  intros Hh Hr. pose proof (norm_pos h Hh) as Hn.
  unfold rotate, turn. tospec. rewrite dot_vmul_l, (dot_comm h r), Hr.
  destruct h as [[h1 h2] h3], r as [[r1 r2] r3].
  set (n := norm (h1, h2, h3)) in *. unfold rescale, vadd, vmul, cross. rs. cbv beta iota zeta.
  apply pair3; field; lra.
Qed.

Theorem rhp9_facets_ok (v h r : pt) :
  h <> (0, 0, 0) -> dot r h = 0 ->
  exists es, rhp RS (pl v ++ pl h ++ pl r) = Ok es /\
             Forall2 same_facet es (rhp_regular_facets v h r).
Proof.
  intros Hh Hr. open_body @rhp. rewrite (pl_nil r), v3_at0, v3_at3, v3_at6.
  rewrite (renorm_ok h Hh). cbn [bind]. rewrite !rotate_turn by assumption. rs.
  replace (IZR 2 * PI / IZR 3) with (2 * (PI / 3)) by (simpl; field).
  change (PI / IZR 3) with (PI / 3).
  rewrite cos_PI3, sin_PI3, cos_2PI3, sin_2PI3.
  eexists; split; [reflexivity|]. unfold rhp_regular_facets.
  set (s := turn h r (1 / 2) (sqrt 3 / 2)). set (t := turn h r (-1 / 2) (sqrt 3 / 2)).
  change (rhp_facets v h r s t) with
    ([plane_end v r; plane_opposite v r] ++ [plane_end v s; plane_opposite v s] ++
     [plane_end v t; plane_opposite v t] ++ [plane_end v h; plane_begin v h]).
  apply Forall2_app3; try apply rhp_pair_ok. apply end_planes_ok.
Qed.

Lemma rhp_pair_wf (v w : pt) :
  w <> (0, 0, 0) ->
  Forall entry_wf
    [ (TP, plane_np RS w (vsum2 RS v w), 1%Z); (TP, plane_np RS w (vdiff RS v w), (-1)%Z) ].
Proof. intros H. rewrite !plane_np_eq. wf_planes. Qed.

Lemma rhp15_wf (v h r s t : pt) :
  h <> (0, 0, 0) -> r <> (0, 0, 0) -> s <> (0, 0, 0) -> t <> (0, 0, 0) ->
  forall es, rhp RS (pl v ++ pl h ++ pl r ++ pl s ++ pl t) = Ok es -> Forall entry_wf es.
Proof.
  intros Hh Hr Hs Ht es. open_body @rhp.
  rewrite (pl_nil t), v3_at0, v3_at3, v3_at6, v3_at9, v3_at12. cbn [bind].
  intros E. injection E as <-.
  rewrite !plane_np_eq. repeat (apply Forall_cons; [apply wf_plane; assumption|]).
  now apply wf_end_planes.
Qed.

(* the regular prism really is regular: s and t have the length of r, are
   normal to h, and make 60 and 120 degrees with r *)
Lemma turn_regular (h r : pt) (c s : R) :
  h <> (0, 0, 0) -> dot r h = 0 -> c * c + s * s = 1 ->
  norm2 (turn h r c s) = norm2 r /\ dot (turn h r c s) h = 0 /\
  dot (turn h r c s) r = c * norm2 r.
Proof.
  intros Hh Hr Hcs. pose proof (norm_pos h Hh) as Hn. pose proof (norm_sqr h) as Hs.
  unfold turn.
  assert (X : norm2 (cross h r) = norm2 h * norm2 r).
  { assert (L : norm2 (cross h r) = norm2 h * norm2 r - dot r h * dot r h).
    { clear. destruct h as [[h1 h2] h3], r as [[r1 r2] r3]. unfold norm2, dot, cross. ring. }
    rewrite L, Hr. ring. }
  assert (Y : dot (cross h r) h = 0 /\ dot (cross h r) r = 0).
  { clear. destruct h as [[h1 h2] h3], r as [[r1 r2] r3]. unfold dot, cross. split; ring. }
  destruct Y as [Y1 Y2].
  repeat split.
  - unfold norm2 at 1. rewrite dot_vadd_l, !dot_vadd_r, !dot_vmul_l, !dot_vmul_r.
    rewrite (dot_comm r (cross h r)), Y2. fold (norm2 r) (norm2 (cross h r)). rewrite X, <- Hs.
    field_simplify; [|lra]. replace (s ^ 2) with (1 - c * c) by lra. field. lra.
  - rewrite dot_vadd_l, !dot_vmul_l, Hr, Y1. ring.
  - rewrite dot_vadd_l, !dot_vmul_l, Y2. unfold norm2. ring.
Qed.

Lemma rhp9_wf (v h r : pt) :
  h <> (0, 0, 0) -> dot r h = 0 -> r <> (0, 0, 0) ->
  forall es, rhp RS (pl v ++ pl h ++ pl r) = Ok es -> Forall entry_wf es.
Proof.
  intros Hh Hr Hr0 es. open_body @rhp. rewrite (pl_nil r), v3_at0, v3_at3, v3_at6.
  rewrite (renorm_ok h Hh). cbn [bind]. rewrite !rotate_turn by assumption. rs.
  replace (IZR 2 * PI / IZR 3) with (2 * (PI / 3)) by (simpl; field).
  change (PI / IZR 3) with (PI / 3).
  rewrite cos_PI3, sin_PI3, cos_2PI3, sin_2PI3.
  intros E. injection E as <-.
  assert (S3 : sqrt 3 * sqrt 3 = 3) by (apply sqrt_sqrt; lra).
  assert (N : forall c, c * c + sqrt 3 / 2 * (sqrt 3 / 2) = 1 ->
                        turn h r c (sqrt 3 / 2) <> (0, 0, 0)).
  { intros c Hc. apply nz_of_norm2.
    destruct (turn_regular h r c (sqrt 3 / 2) Hh Hr Hc) as (-> & _). now apply norm2_pos. }
  rewrite !plane_np_eq.
  repeat (apply Forall_cons; [apply wf_plane; first [assumption | apply N; nra]|]).
  now apply wf_end_planes.
Qed.

(* ---------------- WED ---------------- *)

Lemma cross_vsub_dot (a b h q : pt) :
  dot (cross (vsub a b) h) q = dot (cross a h) q - dot (cross b h) q.
Proof.
  destruct a as [[a1 a2] a3], b as [[b1 b2] b3], h as [[h1 h2] h3], q as [[q1 q2] q3].
  unfold dot, cross, vsub. ring.
Qed.

Lemma wed_norms (a b h : pt) :
  wed_admissible a b h -> 0 < norm2 a /\ 0 < norm2 b /\ 0 < norm2 h.
Proof.
  intros (_ & _ & _ & HD). repeat split; apply norm2_pos.
  - now apply (det_nonzero_l a b h).
  - apply (det_nonzero_l b h a). now rewrite <- det_cyc.
  - apply (det_nonzero_l h a b). now rewrite <- 2 det_cyc.
Qed.

(* the slant normal (a - b) x h in the orthogonal frame *)
Lemma wed_slant_normal (a b h q : pt) :
  wed_admissible a b h ->
  dot (cross (vsub a b) h) q = - det a b h * (dot a q / norm2 a + dot b q / norm2 b).
Proof.
  intros Adm. destruct (wed_norms a b h Adm) as (Na & Nb & Nh).
  destruct Adm as (Hab & Hah & Hbh & HD).
  assert (Hba : dot b a = 0) by now rewrite dot_comm.
  pose proof (cross_parallel b a h q Hba Hbh) as E1.
  pose proof (cross_parallel a b h q Hab Hah) as E2.
  rewrite (det_swap b a h) in E1. rewrite cross_vsub_dot.
  set (D := det a b h) in *.
  assert (X1 : dot (cross a h) q = - D * dot b q / norm2 b) by (field_simplify_eq; lra).
  assert (X2 : dot (cross b h) q = D * dot a q / norm2 a) by (field_simplify_eq; lra).
  rewrite X1, X2. field. lra.
Qed.

Lemma wed_facets_ok_full (v a b h : pt) :
  wed_admissible a b h ->
  exists es, wed RS (pl v ++ pl a ++ pl b ++ pl h) = Ok es /\ Forall entry_wf es /\
             Forall2 same_facet es (wed_facets v a b h).
Proof.
  intros Adm. destruct (wed_norms a b h Adm) as (Na & Nb & Nh).
  pose proof (wed_slant_normal a b h) as SN.
  destruct Adm as (Hab & Hah & Hbh & HD).
  assert (Adm : wed_admissible a b h) by (repeat split; assumption).
  open_body @wed. rewrite (pl_nil h), v3_at0, v3_at3, v3_at6, v3_at9. tospec.
  eexists; split; [reflexivity|].
  split; [assert (Hc : cross (vsub a b) h <> (0, 0, 0));
    [apply (nz_of_dot _ a); rewrite SN by assumption; rewrite (dot_comm b a), Hab;
     fold (norm2 a); intros Z; apply HD;
     replace (- det a b h * (norm2 a / norm2 a + 0 / norm2 b)) with (- det a b h) in Z by (field; lra); lra|];
    apply Forall_app; split; [wf_planes; now apply nz_of_norm2 | apply wf_end_planes; now apply nz_of_norm2]|]. unfold wed_facets.
  set (c := cross (vsub a b) h) in *. set (D := det a b h) in *.
  assert (Hac : dot a c = - D).
  { rewrite dot_comm. unfold c. rewrite SN by assumption. rewrite (dot_comm b a), Hab.
    fold (norm2 a). field. lra. }
  change [wed_slant v a b; plane_begin v a; plane_begin v b; plane_end v h; plane_begin v h]
    with ([wed_slant v a b; plane_begin v a; plane_begin v b] ++ [plane_end v h; plane_begin v h]).
  apply Forall2_app; [|apply end_planes_ok].
  constructor; [|constructor; [|constructor; [|constructor]]].
  - apply same_facet_plane with (c := Rabs D); [now apply Rabs_pos_lt|]. intros p.
    assert (L : dot c p - dot c (vadd v a) = dot c (vsub (vsub p v) a)).
    { rewrite !dot_vsub_r, dot_vadd_r. ring. }
    rewrite L. unfold c at 2. rewrite SN by assumption. fold D.
    rewrite !(dot_vsub_r a), !(dot_vsub_r b), (dot_comm b a), Hab. fold (norm2 a).
    unfold wed_slant. rewrite (dot_comm (vsub p v) a), (dot_comm (vsub p v) b), !dot_vsub_r.
    rewrite Hac. destruct (Rltb_case 0 (- D)) as [[Lt ->]|[Lt ->]].
    + rewrite Rabs_left by lra. cbn [IZR IPR]. field. lra.
    + rewrite Rabs_right by lra. cbn [IZR IPR]. field. lra.
  - apply same_facet_plane with (c := 1); [lra|]. intros p. unfold plane_begin.
    rewrite dot_vadd_r, Hab, dot_vsub_l, (dot_comm p a), (dot_comm v a). cbn [IZR IPR]. ring.
  - apply same_facet_plane with (c := 1); [lra|]. intros p. unfold plane_begin.
    rewrite dot_vadd_r, (dot_comm b a), Hab, dot_vsub_l, (dot_comm p b), (dot_comm v b).
    cbn [IZR IPR]. ring.
Qed.

Theorem wed_facets_ok (v a b h : pt) :
  wed_admissible a b h ->
  exists es, wed RS (pl v ++ pl a ++ pl b ++ pl h) = Ok es /\
             Forall2 same_facet es (wed_facets v a b h).
Proof.
  intros. edestruct (wed_facets_ok_full v a b h) as (es & E & _ & F); try eassumption.
  exists es; split; assumption.
Qed.

(* the solid: v + s a + t b + u h, s, t > 0, s + t < 1, 0 < u < 1 *)
Lemma wed_inside_facets (v a b h p : pt) :
  wed_admissible a b h ->
  (wed_inside v a b h p <-> inside_of (wed_facets v a b h) p).
Proof.
  intros Adm. destruct (wed_norms a b h Adm) as (Na & Nb & Nh).
  destruct Adm as (Hab & Hah & Hbh & HD).
  assert (Hba : dot b a = 0) by now rewrite dot_comm.
  assert (Hha : dot h a = 0) by now rewrite dot_comm.
  assert (Hhb : dot h b = 0) by now rewrite dot_comm.
  unfold inside_of, wed_facets, wed_slant, plane_end, plane_begin. split.
  - intros (s & t & u & Hs & Ht & Hst & Hu & ->).
    assert (E : forall w, dot (vsub (vadd v (vadd (vmul s a) (vadd (vmul t b) (vmul u h)))) v) w
                          = s * dot a w + t * dot b w + u * dot h w).
    { intros w. rewrite dot_vsub_l, !dot_vadd_l, !dot_vmul_l. ring. }
    repeat (apply Forall_cons); [ .. | apply Forall_nil]; cbv beta;
      rewrite ?(dot_vsub_l _ h h), !E; rewrite ?Hab, ?Hah, ?Hbh, ?Hba, ?Hha, ?Hhb;
      fold (norm2 a) (norm2 b) (norm2 h).
    + replace ((s * norm2 a + t * 0 + u * 0) / norm2 a + (s * 0 + t * norm2 b + u * 0) / norm2 b - 1)
        with (s + t - 1) by (field; lra). lra.
    + nra.
    + nra.
    + nra.
    + nra.
  - intros H. repeat match goal with H : Forall _ (_ :: _) |- _ => inversion_clear H end.
    set (q := vsub p v) in *.
    rewrite (dot_vsub_l q h h) in *. fold (norm2 h) in *.
    exists (dot q a / norm2 a), (dot q b / norm2 b), (dot q h / norm2 h).
    assert (Pos : forall x n, 0 < n -> - x < 0 -> 0 < x / n).
    { intros x n Hn Hx. apply Rdiv_lt_0_compat; lra. }
    split; [now apply Pos|]. split; [now apply Pos|]. split; [lra|]. split.
    + split; [now apply Pos|].
      apply (Rmult_lt_reg_r (norm2 h)); [lra|]. unfold Rdiv. rewrite Rmult_assoc, Rinv_l; lra.
    + pose proof (ortho_decompose a b h q Hab Hah Hbh HD) as E.
      rewrite <- E. subst q. destruct p as [[p1 p2] p3], v as [[v1 v2] v3].
      unfold vadd, vsub. apply pair3; ring.
Qed.

(* ---------------- BOX, any parallelepiped ---------------- *)
(* The code's remark "capable of handling generic parallelepipeds": with only
   det <> 0 the entries still bound exactly the solid v + s a1 + t a2 + u a3. *)
Lemma box_entries (v a1 a2 a3 : pt) :
  box RS (pl v ++ pl a1 ++ pl a2 ++ pl a3) =
  let D := det a1 a2 a3 in
  let side := if Rltb D 0 then 1%Z else (-1)%Z in
  Ok [ (TP, pl (cross a2 a3) ++ [dot (cross a2 a3) (vadd v a1)], (- side)%Z);
       (TP, pl (cross a2 a3) ++ [dot (cross a2 a3) v], side);
       (TP, pl (cross a3 a1) ++ [dot (cross a3 a1) (vadd v a2)], (- side)%Z);
       (TP, pl (cross a3 a1) ++ [dot (cross a3 a1) v], side);
       (TP, pl (cross a1 a2) ++ [dot (cross a1 a2) (vadd v a3)], (- side)%Z);
       (TP, pl (cross a1 a2) ++ [dot (cross a1 a2) v], side) ].
Proof.
  open_body @box. rewrite (pl_nil a3), v3_at0, v3_at3, v3_at6, v3_at9. tospec.
  assert (E1 : dot (cross a2 a3) a1 = det a1 a2 a3) by (unfold det; apply dot_comm).
  assert (E2 : dot (cross a3 a1) a2 = det a1 a2 a3).
  { rewrite (det_cyc a1 a2 a3). unfold det. apply dot_comm. }
  assert (E3 : dot (cross a1 a2) a3 = det a1 a2 a3).
  { rewrite (det_cyc a1 a2 a3), (det_cyc a2 a3 a1). unfold det. apply dot_comm. }
  rewrite E1, E2, E3. reflexivity.
Qed.

Lemma plane_entry_value (n q : pt) (side : Z) (p : pt) :
  entry_value (TP, pl n ++ [dot n q], side) p = IZR side * (dot n p - dot n q).
Proof. destruct n as [[a b] c]. reflexivity. Qed.

Theorem box_general_inside (v a1 a2 a3 : pt) :
  det a1 a2 a3 <> 0 ->
  forall es, box RS (pl v ++ pl a1 ++ pl a2 ++ pl a3) = Ok es ->
  forall p, box_inside v a1 a2 a3 p <-> all_negative es p.
Proof.
  intros HD es E p. rewrite box_entries in E. cbv zeta in E. injection E as <-.
  set (D := det a1 a2 a3) in *.
  assert (A1 : dot (cross a2 a3) a1 = D) by (unfold D, det; apply dot_comm).
  assert (A2 : dot (cross a3 a1) a2 = D).
  { unfold D. rewrite (det_cyc a1 a2 a3). unfold det. apply dot_comm. }
  assert (A3 : dot (cross a1 a2) a3 = D).
  { unfold D. rewrite (det_cyc a1 a2 a3), (det_cyc a2 a3 a1). unfold det. apply dot_comm. }
  assert (Z1 : dot (cross a2 a3) a2 = 0 /\ dot (cross a2 a3) a3 = 0 /\
               dot (cross a3 a1) a3 = 0 /\ dot (cross a3 a1) a1 = 0 /\
               dot (cross a1 a2) a1 = 0 /\ dot (cross a1 a2) a2 = 0).
  { clear. destruct a1 as [[x1 y1] z1], a2 as [[x2 y2] z2], a3 as [[x3 y3] z3].
    unfold dot, cross. repeat split; ring. }
  destruct Z1 as (Z12 & Z13 & Z23 & Z21 & Z31 & Z32).
  unfold all_negative.
  assert (Sd : forall x : R,
            (IZR (- (if Rltb D 0 then 1 else -1)) * (x - D) < 0 <-> x / D < 1) /\
            (IZR (if Rltb D 0 then 1 else -1) * x < 0 <-> 0 < x / D)).
  { intros x. destruct (Rltb_case D 0) as [[L ->]|[L ->]]; cbn [Z.opp IZR IPR].
    - split; split; intros H.
      + apply (Rmult_lt_reg_r (- D)); [lra|]. replace (x / D * - D) with (- x) by (field; lra). lra.
      + assert (x / D * - D < 1 * - D) by (apply Rmult_lt_compat_r; lra).
        replace (x / D * - D) with (- x) in H0 by (field; lra). lra.
      + replace (x / D) with ((- x) / (- D)) by (field; lra). apply Rdiv_lt_0_compat; lra.
      + replace (x / D) with ((- x) / (- D)) in H by (field; lra).
        assert (0 * - D < - x / - D * - D) by (apply Rmult_lt_compat_r; lra).
        replace (- x / - D * - D) with (- x) in H0 by (field; lra). lra.
    - assert (0 < D) by lra. split; split; intros H1.
      + apply (Rmult_lt_reg_r D); [lra|]. replace (x / D * D) with x by (field; lra). lra.
      + assert (x / D * D < 1 * D) by (apply Rmult_lt_compat_r; lra).
        replace (x / D * D) with x in H0 by (field; lra). lra.
      + apply Rdiv_lt_0_compat; lra.
      + assert (0 * D < x / D * D) by (apply Rmult_lt_compat_r; lra).
        replace (x / D * D) with x in H0 by (field; lra). lra. }
  set (q := vsub p v).
  assert (Q : forall n, dot n p - dot n (vadd v a1) = dot n q - dot n a1 /\
                        dot n p - dot n (vadd v a2) = dot n q - dot n a2 /\
                        dot n p - dot n (vadd v a3) = dot n q - dot n a3 /\
                        dot n p - dot n v = dot n q).
  { intros n. unfold q. rewrite !dot_vadd_r, dot_vsub_r. repeat split; ring. }
  split.
  - intros (s & t & u & Hs & Ht & Hu & ->).
    assert (Eq : q = vadd (vmul s a1) (vadd (vmul t a2) (vmul u a3))).
    { unfold q. destruct v as [[v1 v2] v3], a1 as [[x1 y1] z1], a2 as [[x2 y2] z2], a3 as [[x3 y3] z3].
      unfold vsub, vadd, vmul. apply pair3; ring. }
    assert (D1 : dot (cross a2 a3) q = s * D).
    { rewrite Eq, !dot_vadd_r, !dot_vmul_r, A1, Z12, Z13. ring. }
    assert (D2 : dot (cross a3 a1) q = t * D).
    { rewrite Eq, !dot_vadd_r, !dot_vmul_r, A2, Z21, Z23. ring. }
    assert (D3 : dot (cross a1 a2) q = u * D).
    { rewrite Eq, !dot_vadd_r, !dot_vmul_r, A3, Z31, Z32. ring. }
    repeat (apply Forall_cons); try apply Forall_nil; rewrite plane_entry_value;
      match goal with |- context [cross ?x ?y] => destruct (Q (cross x y)) as (Q1 & Q2 & Q3 & Q4) end;
      rewrite ?Q1, ?Q2, ?Q3, ?Q4, ?A1, ?A2, ?A3, ?D1, ?D2, ?D3.
    + apply (proj1 (Sd (s * D))). replace (s * D / D) with s by (field; lra). lra.
    + apply (proj2 (Sd (s * D))). replace (s * D / D) with s by (field; lra). lra.
    + apply (proj1 (Sd (t * D))). replace (t * D / D) with t by (field; lra). lra.
    + apply (proj2 (Sd (t * D))). replace (t * D / D) with t by (field; lra). lra.
    + apply (proj1 (Sd (u * D))). replace (u * D / D) with u by (field; lra). lra.
    + apply (proj2 (Sd (u * D))). replace (u * D / D) with u by (field; lra). lra.
  - intros H. repeat match goal with H : Forall _ (_ :: _) |- _ => inversion_clear H end.
    repeat match goal with H : entry_value _ _ < 0 |- _ => rewrite plane_entry_value in H end.
    destruct (Q (cross a2 a3)) as (Q1 & _ & _ & Q1').
    destruct (Q (cross a3 a1)) as (_ & Q2 & _ & Q2').
    destruct (Q (cross a1 a2)) as (_ & _ & Q3 & Q3').
    rewrite ?Q1, ?Q1', ?Q2, ?Q2', ?Q3, ?Q3', ?A1, ?A2, ?A3 in *.
    exists (dot (cross a2 a3) q / D), (dot (cross a3 a1) q / D), (dot (cross a1 a2) q / D).
    repeat split; try (apply Sd; assumption).
    pose proof (cramer a1 a2 a3 q) as C. fold D in C.
    rewrite (dot_comm q (cross a2 a3)), (dot_comm q (cross a3 a1)), (dot_comm q (cross a1 a2)) in C.
    set (X := dot (cross a2 a3) q) in *. set (Y := dot (cross a3 a1) q) in *.
    set (W := dot (cross a1 a2) q) in *. clearbody X Y W D. unfold q in C. clear - C HD.
    destruct p as [[p1 p2] p3], v as [[v1 v2] v3], a1 as [[x1 y1] z1], a2 as [[x2 y2] z2],
             a3 as [[x3 y3] z3].
    unfold vsub, vadd, vmul in *. injection C as C1 C2 C3.
    apply pair3; apply (Rmult_eq_reg_l D); try assumption; field_simplify; try assumption; lra.
Qed.

(* facet numbering for any parallelepiped *)
Theorem box_general_facets_full (v a1 a2 a3 : pt) :
  det a1 a2 a3 <> 0 ->
  exists es, box RS (pl v ++ pl a1 ++ pl a2 ++ pl a3) = Ok es /\ Forall entry_wf es /\
             Forall2 same_facet es (para_facets v a1 a2 a3).
Proof.
  intros HD. rewrite box_entries. cbv zeta. eexists; split; [reflexivity|].
  split; [destruct (cross_nz a1 a2 a3 HD) as (C1 & C2 & C3); wf_planes|].
  set (D := det a1 a2 a3) in *.
  assert (A1 : dot (cross a2 a3) a1 = D) by (unfold D, det; apply dot_comm).
  assert (A2 : dot (cross a3 a1) a2 = D).
  { unfold D. rewrite (det_cyc a1 a2 a3). unfold det. apply dot_comm. }
  assert (A3 : dot (cross a1 a2) a3 = D).
  { unfold D. rewrite (det_cyc a1 a2 a3), (det_cyc a2 a3 a1). unfold det. apply dot_comm. }
  assert (Abs : 0 < Rabs D) by now apply Rabs_pos_lt.
  assert (K1 : forall q, dot (cross a2 a3) q = det q a2 a3) by (intros; unfold det; apply dot_comm).
  assert (K2 : forall q, dot (cross a3 a1) q = det a1 q a3).
  { intros q. rewrite (det_cyc a1 q a3). unfold det. apply dot_comm. }
  assert (K3 : forall q, dot (cross a1 a2) q = det a1 a2 q).
  { intros q. rewrite (det_cyc a1 a2 q), (det_cyc a2 q a1). unfold det. apply dot_comm. }
  unfold para_facets, para_coord.
  repeat (apply Forall2_cons); try apply Forall2_nil;
    apply same_facet_plane with (c := Rabs D); try exact Abs; intros p; cbv beta zeta;
    rewrite ?dot_vadd_r, ?A1, ?A2, ?A3; fold D;
    rewrite <- ?K1, <- ?K2, <- ?K3, !dot_vsub_r;
    destruct (Rltb_case D 0) as [[L ->]|[L ->]]; cbn [Z.opp IZR IPR];
    (rewrite Rabs_left by lra) || (rewrite Rabs_right by lra); field; lra.
Qed.

(* for a right box these are the facets of the MCNP manual *)
Lemma para_facets_right (v a1 a2 a3 : pt) :
  box_admissible a1 a2 a3 ->
  Forall2 (fun f g : pt -> R => exists c, 0 < c /\ forall p, f p = c * g p)
          (para_facets v a1 a2 a3) (box_facets v a1 a2 a3).
Proof.
  intros (H12 & H13 & H23 & HD).
  assert (H21 : dot a2 a1 = 0) by now rewrite dot_comm.
  assert (H31 : dot a3 a1 = 0) by now rewrite dot_comm.
  assert (H32 : dot a3 a2 = 0) by now rewrite dot_comm.
  assert (N1 : 0 < norm2 a1) by (apply norm2_pos; now apply (det_nonzero_l a1 a2 a3)).
  assert (N2 : 0 < norm2 a2).
  { apply norm2_pos. apply (det_nonzero_l a2 a3 a1). now rewrite <- det_cyc. }
  assert (N3 : 0 < norm2 a3).
  { apply norm2_pos. apply (det_nonzero_l a3 a1 a2). now rewrite <- 2 det_cyc. }
  set (D := det a1 a2 a3) in *.
  assert (C1 : forall q, det q a2 a3 / D = dot a1 q / norm2 a1).
  { intros q. pose proof (cross_parallel a1 a2 a3 q H12 H13) as E. fold D in E.
    unfold det at 1. rewrite (dot_comm q). field_simplify_eq; [|lra]. lra. }
  assert (C2 : forall q, det a1 q a3 / D = dot a2 q / norm2 a2).
  { intros q. pose proof (cross_parallel a2 a3 a1 q H23 H21) as E.
    rewrite <- (det_cyc a1 a2 a3) in E. fold D in E.
    rewrite (det_cyc a1 q a3). unfold det at 1. rewrite (dot_comm q). field_simplify_eq; [|lra]. lra. }
  assert (C3 : forall q, det a1 a2 q / D = dot a3 q / norm2 a3).
  { intros q. pose proof (cross_parallel a3 a1 a2 q H31 H32) as E.
    rewrite (det_cyc a3 a1 a2) in E. fold D in E.
    rewrite (det_cyc a1 a2 q), (det_cyc a2 q a1). unfold det at 1. rewrite (dot_comm q).
    field_simplify_eq; [|lra]. lra. }
  unfold para_facets, para_coord, box_facets, plane_end, plane_begin.
  repeat (apply Forall2_cons); try apply Forall2_nil.
  1-2: exists (1 / norm2 a1). 3-4: exists (1 / norm2 a2). 5-6: exists (1 / norm2 a3).
  all: (split; [apply Rdiv_lt_0_compat; lra|]); intros p; cbv beta zeta;
       rewrite ?C1, ?C2, ?C3, ?dot_vsub_l; rewrite ?(dot_comm (vsub p v));
       fold (norm2 a1) (norm2 a2) (norm2 a3); rewrite ?dot_vsub_r, ?(dot_comm p), ?(dot_comm v); field; lra.
Qed.
