(* C03 — the written-surface theorems with the transformation taken from a
   well-formed TR card / inline TRCL / FILL transformation (C04). *)
From Coq Require Import List ZArith NArith Bool Reals Lra.
From T4V Require Import Base.Scalar C03.Vec C03.Model C03.Convert C03.Spec C03.SpecT4
  C03.ProofsPlanes C03.ProofsQuad C03.ProofsArb C03.ProofsConvert C03.ProofsWritten C03.Proofs
  C03.ProofsExpand C03.ProofsExpandT4 C03.LinkC04.
Import ListNotations.
Open Scope R_scope.

(* MCNP's auxiliary frame as C04's Spec defines it *)
Definition aux_c04 (o : S4.R3) (b : V4.M3 R) (p : pt) : pt := pt_of (S4.to_aux o b (v4_of p)).

Lemma same_t4_facet_ext (g g' : pt -> pt) t f :
  (forall p, g p = g' p) -> same_t4_facet g t f -> same_t4_facet g' t f.
Proof. intros E (c & Hc & H). exists c. split; [exact Hc|]. intros p. now rewrite <- E. Qed.

Lemma Forall2_imp {A B} (P Q : A -> B -> Prop) l m :
  (forall a b, P a b -> Q a b) -> Forall2 P l m -> Forall2 Q l m.
Proof. intros H. induction 1; constructor; auto. Qed.

(* generic: any body whose entries are MCNP's facets, under the transformation
   the converter reads from the card *)
Theorem written_linked (l : list R) (o : S4.R3) (b : V4.M3 R)
        (bd : body) (p : list R) (d : list N) (fs : list (pt -> R)) :
  card_gives l o b ->
  (exists es, body_parts RS bd p d = Ok es /\ Forall entry_wf es /\ Forall2 same_facet es fs) ->
  exists ts, body_t4 RS (transf_of_list l) bd p d = Ok ts /\
             Forall2 (same_t4_facet (aux_c04 o b)) ts fs.
Proof.
  intros Hc Hb. destruct (card_transformation l o b Hc) as (-> & Ho).
  destruct (written_from_facets (Some (transf_of_c04 o b)) bd p d fs Ho Hb) as (ts & E & F).
  exists ts. split; [exact E|].
  eapply Forall2_imp; [|exact F]. intros t f. apply same_t4_facet_ext.
  intros q. cbn [frame_of]. apply to_aux_c04.
Qed.

(* the family: every macrobody under a card's transformation *)
Theorem written_linked_family (l : list R) (o : S4.R3) (b : V4.M3 R) :
  card_gives l o b ->
  let W := fun bd p d fs =>
    exists ts, body_t4 RS (transf_of_list l) bd p d = Ok ts /\
               Forall2 (same_t4_facet (aux_c04 o b)) ts fs in
  (forall v a1 a2 a3, box_admissible a1 a2 a3 ->
     W BOX (pl v ++ pl a1 ++ pl a2 ++ pl a3) [] (box_facets v a1 a2 a3)) /\
  (forall v a1 a2 a3, det a1 a2 a3 <> 0 ->
     W BOX (pl v ++ pl a1 ++ pl a2 ++ pl a3) [] (para_facets v a1 a2 a3)) /\
  (forall x0 x1 y0 y1 z0 z1,
     W RPP [x0; x1; y0; y1; z0; z1] [] (rpp_facets x0 x1 y0 y1 z0 z1)) /\
  (forall c r, W SPH (pl c ++ [r]) [] (sph_facets c r)) /\
  (forall v h r, h <> (0, 0, 0) -> W RCC (pl v ++ pl h ++ [r]) [] (rcc_facets v h r)) /\
  (forall v h r s t, h <> (0, 0, 0) -> r <> (0, 0, 0) -> s <> (0, 0, 0) -> t <> (0, 0, 0) ->
     W RHP (pl v ++ pl h ++ pl r ++ pl s ++ pl t) [] (rhp_facets v h r s t)) /\
  (forall v h r, h <> (0, 0, 0) -> dot r h = 0 -> r <> (0, 0, 0) ->
     W RHP (pl v ++ pl h ++ pl r) [] (rhp_regular_facets v h r)) /\
  (forall v h a1 a2, h <> (0, 0, 0) -> a1 <> (0, 0, 0) -> a2 <> (0, 0, 0) ->
     W REC (pl v ++ pl h ++ pl a1 ++ pl a2) [] (rec_facets v h a1 a2)) /\
  (forall v h a1 bb, cross h a1 <> (0, 0, 0) -> bb <> 0 ->
     W REC (pl v ++ pl h ++ pl a1 ++ [bb]) [] (rec_facets v h a1 (rec10_minor h a1 bb))) /\
  (forall v h r0 r1, h <> (0, 0, 0) -> r0 <> r1 ->
     W TRC (pl v ++ pl h ++ [r0; r1]) [] (trc_facets v h r0 r1)) /\
  (forall c a mb, a <> (0, 0, 0) -> mb < 0 ->
     W ELL (pl c ++ pl a ++ [mb]) [] (ell_axis_facets c a mb)) /\
  (forall f1 f2 L, 0 < L -> vsub f1 (vmul (1 / 2) (vadd f1 f2)) <> (0, 0, 0) ->
     norm (vsub f1 (vmul (1 / 2) (vadd f1 f2))) <> 2 * L ->
     W ELL (pl f1 ++ pl f2 ++ [L]) [] (ell_foci_facets f1 f2 L)) /\
  (forall v a bb h, wed_admissible a bb h ->
     W WED (pl v ++ pl a ++ pl bb ++ pl h) [] (wed_facets v a bb h)) /\
  (forall V descr, List.length V = 8%nat -> List.length descr = 6%nat ->
     (1 <= arb_nvert descr <= 8)%nat ->
     Forall (facet_admissible (firstn (arb_nvert descr) V)
                              (centroid_of (firstn (arb_nvert descr) V)))
            (arb_facet_lists descr) ->
     W ARB (flat V) descr (arb_facets (firstn (arb_nvert descr) V) (arb_facet_lists descr))).
Proof.
  intros Hc W. subst W. cbv beta.
  repeat split; intros; apply (written_linked l o b); try exact Hc.
  - now apply box_facets_ok_full.
  - now apply box_general_facets_full.
  - apply rpp_facets_ok_full.
  - apply sph_facets_ok_full.
  - now apply rcc_facets_ok_full.
  - destruct (rhp15_facets_ok v h r s t) as (es & E & F).
    exists es. split; [exact E|]. split; [|exact F]. now apply (rhp15_wf v h r s t).
  - destruct (rhp9_facets_ok v h r) as (es & E & F); try assumption.
    exists es. split; [exact E|]. split; [|exact F]. now apply (rhp9_wf v h r).
  - now apply rec12_facets_ok_full.
  - now apply rec10_facets_ok_full.
  - now apply trc_facets_ok_full.
  - now apply ell_axis_facets_ok_full.
  - now apply ell_foci_facets_ok_full.
  - now apply wed_facets_ok_full.
  - now apply arb_facets_ok_full.
Qed.

(* TRCL=n (by number): the cell is moved by the transformation of card n *)
Theorem trcl_by_number_linked (l : list R) (o : S4.R3) (b : V4.M3 R) star (n : R) trs trid :
  card_gives l o b -> M4.lookup trid trs = M4.Ok l ->
  M4.parse_trcl RS star [n] trs trid = M4.Ok l.
Proof.
  intros Hc Hl. apply T4V.C04.ProofsCard.inline_number; [exact Hl|].
  destruct (card_transformation l o b Hc) as (E & _).
  destruct l as [|? [|? [|? [|? [|? [|? [|? [|? [|? [|? [|? [|? [|? ?]]]]]]]]]]]]]; try discriminate.
  reflexivity.
Qed.

(* the whole property text with the transformation read from a card *)
Theorem reference_written_linked (l : list R) (o : S4.R3) (b : V4.M3 R)
        (bd : body) (p : list R) (d : list N) (fs : list (pt -> R)) :
  card_gives l o b -> fs <> [] ->
  (exists es, body_parts RS bd p d = Ok es /\ Forall entry_wf es /\ Forall2 same_facet es fs) ->
  forall ts, body_t4 RS (transf_of_list l) bd p d = Ok ts ->
  forall (ns : list Z) (fv : Z -> R) (q : pt) (new_key n : Z),
  ProofsExpandT4.numbered_t4 fv q ts ns ->
  ((n < 0)%Z -> exists t k, expand new_key n None (ProofsExpandT4.ids_of_t4 ts ns) = Ok (t, k) /\
                            (ProofsExpand.den fv t <-> inside_of fs (aux_c04 o b q))) /\
  ((0 < n)%Z -> exists t k, expand new_key n None (ProofsExpandT4.ids_of_t4 ts ns) = Ok (t, k) /\
                            (ProofsExpand.den fv t <-> outside_of fs (aux_c04 o b q))) /\
  (forall k f, nth_error fs k = Some f -> n <> 0%Z ->
     exists t, expand new_key n (Some (S k)) (ProofsExpandT4.ids_of_t4 ts ns) = Ok (t, new_key) /\
               (ProofsExpand.den fv t <->
                if (0 <? n)%Z then 0 < f (aux_c04 o b q) else f (aux_c04 o b q) < 0)) /\
  (forall k, (List.length fs < k)%nat ->
     expand new_key n (Some k) (ProofsExpandT4.ids_of_t4 ts ns) = Err ECellConv).
Proof.
  intros Hc Hne Hb ts Et ns fv q new_key n Hnum.
  destruct (card_transformation l o b Hc) as (El & Ho). rewrite El in Et.
  pose proof (ProofsExpandT4.reference_written (Some (transf_of_c04 o b)) bd p d fs Ho Hne Hb
                ts Et ns fv q new_key n Hnum) as H.
  cbn [frame_of] in H. rewrite to_aux_c04 in H. exact H.
Qed.
